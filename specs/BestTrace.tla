------------------------------ MODULE BestTrace ------------------------------
(* Conformance of the real Study / storages with Best: one event is one trial history, as read back *)
(* from a real study on a real backend, together with what that study answered:                      *)
(*   dirs : direction vector (1 = minimize, -1 = maximize)                                           *)
(*   h    : <<trial, ...>> in number order (see Best.tla)                                            *)
(*   bt   : study.best_trial    [k |-> "ok"|"err", n |-> number | -1, e |-> exception class | ""]    *)
(*   bv   : study.best_value    [k, x |-> value | 0, e]                                              *)
(*   bts  : study.best_trials   [k, ns |-> <<numbers in the order returned>>, e]                     *)
(*   sb   : storage.get_best_trial(study_id)   like bt                                               *)
(*   q    : the replies to judge in this event (all four normally; one at a time when the harness    *)
(*          asks TLC which reply of a rejected event is the inadmissible one)                        *)
(* Every other field (backend, build mode, arrival order) is bookkeeping the spec does not read:     *)
(* the property quantifies over backends and arrival orders, the admissible answers do not depend    *)
(* on them.                                                                                          *)
EXTENDS Best, TraceBase
CONSTANTS MaxDim, MaxTrials, MaxCoord

States == {"COMPLETE", "PRUNED", "FAIL", "RUNNING", "WAITING"}
CoordOK(x) == x = NegInf \/ x = PosInf \/ (0 - MaxCoord <= x /\ x <= MaxCoord)
TrialOK(t, d) == /\ t.s \in States
                 /\ t.hc \in {0, 1}
                 /\ \A k \in 1..Len(t.v) : CoordOK(t.v[k])
                 /\ \A k \in 1..Len(t.c) : CoordOK(t.c[k])
                 /\ t.s = "COMPLETE" => Len(t.v) = d
InputOK(e) == /\ Len(e.dirs) \in 1..MaxDim
              /\ \A k \in 1..Len(e.dirs) : e.dirs[k] \in {Min, Max}
              /\ Len(e.h) <= MaxTrials
              /\ \A i \in 1..Len(e.h) : TrialOK(e.h[i], Len(e.dirs))

QueryOK(e, q) ==
  CASE q = "bt"  -> BestTrialOK(e.h, e.dirs, e.bt)
    [] q = "bv"  -> BestValueOK(e.h, e.dirs, e.bv) /\ ValueIsOfTrial(e.h, e.bt, e.bv)
    [] q = "bts" -> BestTrialsOK(e.h, e.dirs, e.bts)
    [] q = "sb"  -> StorageBestOK(e.h, e.dirs, e.sb)
    [] OTHER -> FALSE

CaseOK(e) == InputOK(e) /\ Len(e.q) >= 1 /\ \A k \in 1..Len(e.q) : QueryOK(e, e.q[k])

vars == <<tix, l>>
Init == TraceInitBase
Step == Consume /\ CaseOK(Ev)
Next == Step
Spec == Init /\ [][Next]_vars
==============================================================================
