SPECIFICATION Spec
INVARIANT ValueInDomain
INVARIANT FixedWins
INVARIANT StoredEqualsReturned
INVARIANT RelativeIsContained
PROPERTY SameNameSameValue
CHECK_DEADLOCK FALSE
