--------------------------- MODULE JournalRedisTrace ---------------------------
(* Conformance of the real JournalRedisBackend (over fakeredis, several client objects of one server,  *)
(* threads under the line-level scheduler) with JournalRedis: every Redis command the real code issues *)
(* is one event, in the order the server executed them:                                               *)
(*   setnx(w)  eval(w, idx, rec)  incr(w, idx)  set(w, idx, rec)      append_logs                      *)
(*   getmax(w, from, max)  get(w, i, hit)  sleep(w)  ret(w, got)      read_logs                        *)
(*   crash(w)                                                          the worker never runs again     *)
(* Each must be the corresponding action of JournalRedis with the logged arguments; the invariants of  *)
(* JournalRedis (contiguous reads, acked records present, no duplicates, dense indices) are evaluated   *)
(* in every state of every trace.                                                                      *)
EXTENDS JournalRedis, TraceBase

tvars == <<tix, l, counter, slot, apc, rpc, acked, results, dead>>
Good == IndicesDense /\ NoDuplicates /\ AckedInLog /\ NoGapUnlessInFlight /\ ReadsAreContiguous /\ PerAppenderOrder
Is(e) == Consume /\ Ev.e = e

TSetNX   == Is("setnx") /\ SetNX(Ev.w)
TEval    == Is("eval")  /\ EvalAppend(Ev.w) /\ counter' = Ev.idx /\ slot'[Ev.idx] = <<Ev.rec[1], Ev.rec[2]>>
TIncr    == Is("incr")  /\ Incr(Ev.w) /\ counter' = Ev.idx
TSet     == Is("set")   /\ SetSlot(Ev.w) /\ apc[Ev.w].idx = Ev.idx /\ slot'[Ev.idx] = <<Ev.rec[1], Ev.rec[2]>>
TDone    == Is("done")  /\ Done(Ev.w)
TCrash   == Is("crash") /\ dead' = dead \cup {Ev.w} /\ UNCHANGED <<counter, slot, apc, rpc, acked, results>>   \* at any point
TGetMax  == Is("getmax") /\ GetMax(Ev.w, Ev.from)
                         /\ IF Ev.max = -2 THEN counter = Absent ELSE counter = Ev.max
TGet     == Is("get")   /\ rpc[Ev.w].i = Ev.i /\ GetSlot(Ev.w) /\ (Ev.hit = 1) = (Ev.i \in DOMAIN slot)
\* the sleep follows a GET that missed; the record may have arrived between that GET and the sleep (no condition on slot)
TSleep   == Is("sleep") /\ rpc[Ev.w].pc = "loop"
                         /\ UNCHANGED <<counter, slot, apc, rpc, acked, results, dead>>
TRet     == Is("ret")   /\ Return(Ev.w)
                         /\ LET got == results'[Len(results')].got IN
                              /\ Len(got) = Len(Ev.got) /\ \A j \in 1..Len(got) : got[j] = <<Ev.got[j][1], Ev.got[j][2]>>
TRetEmpty == Is("ret0") /\ Ev.got = <<>> /\ rpc[Ev.w].pc = "idle"          \* the counter key was absent: [] at once
                         /\ UNCHANGED <<counter, slot, apc, rpc, acked, results, dead>>

TInit == TraceInitBase /\ Init
TNext == /\ (TSetNX \/ TEval \/ TIncr \/ TSet \/ TDone \/ TCrash \/ TGetMax \/ TGet \/ TSleep \/ TRet \/ TRetEmpty)
         /\ Good'
TSpec == TInit /\ [][TNext]_tvars
=================================================================================
