--------------------------- MODULE JournalFileTrace ---------------------------
(* Validation of executions of the REAL optuna.storages.journal._file code (run over the syscall    *)
(* shim of harness/jfile_shim.py) against the property-level view JournalLog (C05, C07).            *)
(*                                                                                                  *)
(* The trace is the totally ordered log of shim calls and call boundaries of all workers.  The file *)
(* and the lock file are reconstructed here from the write / lock events (FS layer: always          *)
(* consumable), and the properties are checked where they speak:                                    *)
(*   lock_try ok   -> MutualExclusion     (no other live worker holds the lock)                     *)
(*   write         -> LogIntact           (no interleaved / duplicated / damaged line)              *)
(*   aend          -> AppendVisible       (acknowledged records are whole, consecutive, ordered)    *)
(*   rend          -> ReadSound, no error, CacheExact                                               *)
(* A recorded finding is a history flag set by the exact bad step (K4: a waiter's takeover renamed  *)
(* the lock of a LIVE holder); mutual exclusion and its consequences are checked modulo that flag.  *)
EXTENDS JournalLog, TraceBase

VARIABLES file, lockOwner, holders, alive, acked, pend, before, rfrom, ackedAtR, flags,
          seen      \* worker -> generation of the lock file it saw at its last stat of the lock (0: none / ENOENT)
vars == <<tix, l, file, lockOwner, holders, alive, acked, pend, before, rfrom, ackedAtR, flags, seen>>

Workers == Trace.workers            \* set of worker ids as a sequence
WSet    == {Workers[i] : i \in 1..Len(Workers)}
NoOwner == 0
W       == Ev.w
Is(e)   == Consume /\ Ev.e = e
Range(s) == {s[i] : i \in 1..Len(s)}
Keep(vs) == UNCHANGED vs /\ UNCHANGED seen

Init == /\ TraceInitBase
        /\ file = <<>> /\ lockOwner = NoOwner /\ holders = {} /\ alive = WSet /\ acked = <<>>
        /\ pend = [w \in WSet |-> <<>>] /\ before = [w \in WSet |-> {}]
        /\ rfrom = [w \in WSet |-> 0] /\ ackedAtR = [w \in WSet |-> {}] /\ flags = {}
        /\ seen = [w \in WSet |-> 0]

AStart == /\ Is("astart")
          /\ pend' = [pend EXCEPT ![W] = Ev.recs] /\ before' = [before EXCEPT ![W] = Range(acked)]
          /\ Keep(<<file, lockOwner, holders, alive, acked, rfrom, ackedAtR, flags>>)

LockTryOk ==
  /\ Is("lock_try") /\ Ev.ok = 1
  /\ lockOwner = NoOwner                                         \* FS: the lock file did not exist
  /\ ("K4" \in flags) \/ ((holders \cap alive) \ {W} = {})       \* MutualExclusion
  /\ lockOwner' = W /\ holders' = holders \cup {W}
  /\ Keep(<<file, alive, acked, pend, before, rfrom, ackedAtR, flags>>)
LockTryBusy ==
  /\ Is("lock_try") /\ Ev.ok = 0 /\ lockOwner # NoOwner
  /\ Keep(<<file, lockOwner, holders, alive, acked, pend, before, rfrom, ackedAtR, flags>>)

StatLockEv ==        \* a waiter looks at the lock file (generation = identity of the file it saw)
  /\ Is("stat_lock") /\ seen' = [seen EXCEPT ![W] = Ev.gen]
  /\ UNCHANGED <<file, lockOwner, holders, alive, acked, pend, before, rfrom, ackedAtR, flags>>

LockRenameOk ==      \* release by the holder, or a grace-period takeover by a waiter
  /\ Is("lock_rename") /\ Ev.ok = 1 /\ lockOwner # NoOwner
  \* The recorded finding K4 is a check-then-act race: the waiter removes a lock file OTHER than the one it looked at.
  \* Removing the lock of a live holder that the waiter saw at its very last look is explained by nothing (the grace
  \* period is longer than any live critical section).
  /\ (lockOwner # W /\ lockOwner \in alive /\ lockOwner \in holders) => seen[W] # Ev.gen
  /\ flags' = IF lockOwner # W /\ lockOwner \in alive /\ lockOwner \in holders THEN flags \cup {"K4"} ELSE flags
  /\ lockOwner' = NoOwner /\ holders' = holders \ {W}
  /\ Keep(<<file, alive, acked, pend, before, rfrom, ackedAtR>>)
LockRenameFail ==
  /\ Is("lock_rename") /\ Ev.ok = 0 /\ lockOwner = NoOwner
  /\ holders' = holders \ {W}
  /\ Keep(<<file, lockOwner, alive, acked, pend, before, rfrom, ackedAtR, flags>>)

Write ==
  /\ Is("write")
  /\ file' = file \o Ev.pieces
  /\ ("K4" \in flags) \/ LogIntact(file')
  /\ Keep(<<lockOwner, holders, alive, acked, pend, before, rfrom, ackedAtR, flags>>)

Truncate ==          \* a writer drops an unterminated tail left by a crashed writer
  /\ Is("truncate")
  /\ file' = CutTo(file, Ev.size)
  /\ ("K4" \in flags) \/ Records(file') = Records(file)          \* never removes a readable record
  /\ Keep(<<lockOwner, holders, alive, acked, pend, before, rfrom, ackedAtR, flags>>)

AEnd ==
  /\ Is("aend")
  /\ IF Ev.ok = 1
       THEN /\ ("K4" \in flags) \/ AppendVisible(file, pend[W], before[W])
            /\ acked' = acked \o pend[W]
       ELSE /\ "K4" \in flags                                    \* survivors append without errors
            /\ acked' = acked
  /\ pend' = [pend EXCEPT ![W] = <<>>]
  /\ Keep(<<file, lockOwner, holders, alive, before, rfrom, ackedAtR, flags>>)

RStart == /\ Is("rstart")
          /\ rfrom' = [rfrom EXCEPT ![W] = Ev.from] /\ ackedAtR' = [ackedAtR EXCEPT ![W] = Range(acked)]
          /\ Keep(<<file, lockOwner, holders, alive, acked, pend, before, flags>>)

REnd == /\ Is("rend")
        /\ \/ "K4" \in flags
           \/ /\ Ev.err = "none"                                  \* readers never fail
              /\ ReadSound(file, rfrom[W], Ev.out, ackedAtR[W])
              /\ CacheExact(file, Ev.cache)
        /\ Keep(<<file, lockOwner, holders, alive, acked, pend, before, rfrom, ackedAtR, flags>>)

Crash == /\ Is("crash")
         /\ alive' = alive \ {W}
         /\ Keep(<<file, lockOwner, holders, acked, pend, before, rfrom, ackedAtR, flags>>)

Other == /\ Consume
         /\ Ev.e \in {"open_ab", "open_rb", "stat_size", "seek", "readline", "fsync", "unlink", "sleep", "tick"}
         /\ Keep(<<file, lockOwner, holders, alive, acked, pend, before, rfrom, ackedAtR, flags>>)

Next == AStart \/ LockTryOk \/ LockTryBusy \/ StatLockEv \/ LockRenameOk \/ LockRenameFail \/ Write \/ Truncate \/ AEnd
        \/ RStart \/ REnd \/ Crash \/ Other
Spec == Init /\ [][Next]_vars

FlagReport == (l = Len(Events) + 1 /\ flags # {}) => PrintT(<<"FLAG", Trace.tid, flags>>)
==============================================================================
