------------------------------- MODULE Domain -------------------------------
(* Property-level specification of optuna's parameter domains (C11, used by C10).                  *)
(*                                                                                                 *)
(* Numbers live on a decimal lattice: low, high, step are INTEGERS in units of 10^-k (k is chosen   *)
(* by whoever builds the record and is the same for all numbers of one case), so that the          *)
(* "decimal" semantics optuna documents (high is replaced by the largest low + i*step <= high;     *)
(* containment = on the step grid) is exact integer arithmetic here.  No floating point.           *)
(*                                                                                                 *)
(* A distribution is the record [cls, lo, hi, step, log, ch]:                                      *)
(*   cls  : class name without the suffix "Distribution"                                           *)
(*   step : 0 = continuous (floats only); integers always have step >= 1                           *)
(*   log  : 0/1                                                                                    *)
(*   ch   : sequence of choice tokens [t, v] (<<>> unless cls = "Cat")                             *)
(*                                                                                                 *)
(* An OBSERVED VALUE is the record [ty, fl, ce, near, dev, bl, ab, ix] a harness projects a real   *)
(* Python value to (see harness/c11.py: obs()):                                                    *)
(*   ty   : "float" | "int" | "cat" | anything else (never admitted)                               *)
(*   fl,ce: largest lattice point <= v and smallest lattice point >= v, in the order of the floats *)
(*          (fl = ce iff v is bit-identical to the double nearest to a lattice point)              *)
(*   near : lattice point nearest to v;  dev: exact distance from it in units of 10^-9 step,       *)
(*          rounded up (0 iff fl = ce)                                                             *)
(*   bl,ab: number of doubles v lies below the distribution's low / above its high (0 if not)      *)
(*   ix   : 1-based index of the categorical choice (0 = none of the choices)                      *)
EXTENDS Integers, Sequences, FiniteSets, TLC

FloatClasses == {"Float", "Uniform", "LogUniform", "DiscreteUniform"}
IntClasses   == {"Int", "IntUniform", "IntLogUniform"}
Kind(d) == IF d.cls \in FloatClasses THEN "float" ELSE IF d.cls \in IntClasses THEN "int" ELSE "cat"

D(cls, lo, hi, step, log, ch) == [cls |-> cls, lo |-> lo, hi |-> hi, step |-> step, log |-> log, ch |-> ch]

\* ------------------------------------------------------------------ validity of constructor arguments
\* (what the constructors in optuna/distributions.py accept; integer distributions always use the unit 1)
Valid(d) ==
  /\ d.log \in {0, 1}
  /\ CASE d.cls = "Float"           -> d.lo <= d.hi /\ d.step >= 0 /\ (d.log = 1 => d.step = 0 /\ d.lo > 0) /\ d.ch = <<>>
       [] d.cls = "Uniform"         -> d.lo <= d.hi /\ d.step = 0 /\ d.log = 0 /\ d.ch = <<>>
       [] d.cls = "LogUniform"      -> d.lo <= d.hi /\ d.step = 0 /\ d.log = 1 /\ d.lo > 0 /\ d.ch = <<>>
       [] d.cls = "DiscreteUniform" -> d.lo <= d.hi /\ d.step > 0 /\ d.log = 0 /\ d.ch = <<>>
       [] d.cls = "Int"             -> d.lo <= d.hi /\ d.step >= 1 /\ (d.log = 1 => d.step = 1 /\ d.lo >= 1) /\ d.ch = <<>>
       [] d.cls = "IntUniform"      -> d.lo <= d.hi /\ d.step >= 1 /\ d.log = 0 /\ d.ch = <<>>
       [] d.cls = "IntLogUniform"   -> d.lo <= d.hi /\ d.step = 1 /\ d.log = 1 /\ d.lo >= 1 /\ d.ch = <<>>
       [] d.cls = "Cat"             -> Len(d.ch) >= 1 /\ d.lo = 0 /\ d.hi = 0 /\ d.step = 0 /\ d.log = 0
       [] OTHER -> FALSE

\* ------------------------------------------------------------------ the step grid
\* "high will be replaced with the maximum of k*step + low <= high" (docstrings of Float/IntDistribution)
AdjustHigh(lo, hi, step) == IF step = 0 THEN hi ELSE lo + ((hi - lo) \div step) * step
Norm(d) == [d EXCEPT !.hi = AdjustHigh(d.lo, d.hi, d.step)]      \* the distribution the constructor builds

Grid(d) == {d.lo + i * d.step : i \in 0..((d.hi - d.lo) \div d.step)}          \* only for step > 0
Contains(d, v) == d.lo <= v /\ v <= d.hi /\ (d.step > 0 => (v - d.lo) % d.step = 0)   \* numeric kinds, lattice value v
Single(d) == IF Kind(d) = "cat" THEN Len(d.ch) = 1
             ELSE IF d.step = 0 THEN d.lo = d.hi
             ELSE d.hi - d.lo < d.step

\* ------------------------------------------------------------------ categorical choices
\* choice token [t, v]: t in {"none","bool","int","float","str","nan"}; v = the number in lattice units for the
\* numeric types (True = 1, False = 0), an arbitrary id for strings, 0 otherwise.  Python's == identifies
\* True, 1 and 1.0; optuna compares choices with == (and nan with nan): _categorical_choice_equal.
NumTypes == {"bool", "int", "float"}
PyEq(c1, c2) == \/ c1 = c2
                \/ c1.t \in NumTypes /\ c2.t \in NumTypes /\ c1.v = c2.v
ChoicesEq(a, b) == Len(a) = Len(b) /\ \A i \in 1..Len(a) : PyEq(a[i], b[i])

\* equality of distributions as `==` decides it (BaseDistribution.__eq__, CategoricalDistribution.__eq__)
DistEq(d1, d2) == /\ d1.cls = d2.cls /\ d1.lo = d2.lo /\ d1.hi = d2.hi /\ d1.step = d2.step /\ d1.log = d2.log
                  /\ ChoicesEq(d1.ch, d2.ch)

\* check_distribution_compatibility: same class, same log flag, categorical: equal choices
Compatible(d1, d2) == /\ d1.cls = d2.cls
                      /\ (Kind(d1) # "cat" => d1.log = d2.log)
                      /\ (Kind(d1) = "cat" => ChoicesEq(d1.ch, d2.ch))

\* ------------------------------------------------------------------ observed values
StepTol  == 10     \* FloatDistribution._contains: |k - round(k)| < 1e-8, k = (v - low) / step   (dev unit: 1e-9 step)
UlpSlack == 4      \* "a few ulps" for log-scaled floats (C10/C11 statements)

Lat(ty, n) == [ty |-> ty, fl |-> n, ce |-> n, near |-> n, dev |-> 0, bl |-> 0, ab |-> 0, ix |-> 0]
Choice(i)  == [ty |-> "cat", fl |-> 0, ce |-> 0, near |-> 0, dev |-> 0, bl |-> 0, ab |-> 0, ix |-> i]

InRange(d, o)   == d.lo <= o.fl /\ o.ce <= d.hi
OnLattice(o)    == o.fl = o.ce

\* membership of an observed value in the domain of d, with `slack` doubles of tolerance at the ends of
\* log-scaled float ranges (0 = exact)
AdmitsS(d, o, slack) ==
  IF Kind(d) = "cat" THEN o.ty = "cat" /\ o.ix \in 1..Len(d.ch)
  ELSE IF Kind(d) = "int" THEN o.ty = "int" /\ OnLattice(o) /\ Contains(d, o.fl)
  ELSE IF d.step > 0 THEN o.ty = "float" /\ InRange(d, o) /\ Contains(d, o.near) /\ o.dev < StepTol
  ELSE IF d.log = 0 THEN o.ty = "float" /\ InRange(d, o)
  ELSE /\ o.ty = "float"
       /\ (d.lo <= o.fl \/ o.bl \in 1..slack)
       /\ (o.ce <= d.hi \/ o.ab \in 1..slack)

ContainsObs(d, o) == AdmitsS(d, o, 0)           \* what _contains answers
Admits(d, o)      == AdmitsS(d, o, UlpSlack)    \* what the properties demand of produced values

\* the single value of a single-point domain (_get_single_value)
SingleValue(d) == IF Kind(d) = "cat" THEN Choice(1) ELSE Lat(Kind(d), d.lo)

\* same value, as far as the projections can tell (numeric: identical observation; categorical: == choices)
ObsEq(d, o1, o2) == IF Kind(d) = "cat"
                    THEN o1.ty = "cat" /\ o2.ty = "cat" /\ o1.ix \in 1..Len(d.ch) /\ o2.ix \in 1..Len(d.ch)
                         /\ PyEq(d.ch[o1.ix], d.ch[o2.ix])
                    ELSE o1 = o2
===============================================================================
