SPECIFICATION Spec
CONSTANTS Dim = 2  MaxN = 3  MaxV = 2
INVARIANT MultiObjective
INVARIANT MirrorWilcoxon
INVARIANT WilcoxonStatisticsPartition
CHECK_DEADLOCK FALSE
