SPECIFICATION Spec
CONSTANTS Family = "pct"  MaxTrials = 3  MaxStep = 1  MaxVal = 1  MaxReports = 4  WithNaN = TRUE
          FinishStates = {"COMPLETE", "PRUNED"}
INVARIANT AlgoWithinEnvelope
INVARIANT EnvelopeSatisfiable
INVARIANT CheckStepIsCode
INVARIANT NopNeverPrunes
CHECK_DEADLOCK FALSE
