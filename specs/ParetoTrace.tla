----------------------------- MODULE ParetoTrace -----------------------------
(* Conformance of the real kernels with Pareto: every event is one call of a real function on a    *)
(* lattice input together with the answer it gave; TLC recomputes the oracle and accepts the event *)
(* only if the answer is admissible.                                                               *)
(*   hv    : compute_hypervolume(pts, ref)               ret = number of cells | Infinite           *)
(*   rank  : _fast_non_domination_rank(pts, pen, nb)      ret = <<rank_1, ...>>                      *)
(*   front : _is_pareto_front(pts)                        ret = <<0/1, ...>>                         *)
(*   hssp  : _solve_hssp(pts, 1..n, k, ref)               ret = <<index, ...>> (1-based)             *)
EXTENDS Pareto, TraceBase
CONSTANTS MaxDim, MaxPts, MaxCoord

CoordOK(x) == x = NegInf \/ x = PosInf \/ (0 <= x /\ x <= MaxCoord + 1)
PointsOK(pts) == /\ Len(pts) \in 1..MaxPts
                 /\ Len(pts[1]) \in 1..MaxDim
                 /\ \A k \in 1..Len(pts) : Len(pts[k]) = Len(pts[1]) /\ \A i \in 1..Len(pts[k]) : CoordOK(pts[k][i])
RefOK(pts, ref) == Len(ref) = Len(pts[1]) /\ (\A i \in 1..Len(ref) : CoordOK(ref[i])) /\ WeaklyDominatedRef(pts, ref)

Case2DOK(e) ==     \* _solve_hssp on two objectives with integer coordinates in the thousands
  /\ Len(e.pts) \in 1..14 /\ \A i \in 1..Len(e.pts) : Len(e.pts[i]) = 2 /\ \A c \in 1..2 : e.pts[i][c] \in -500..4000
  /\ Len(e.ref) = 2 /\ (\A c \in 1..2 : e.ref[c] \in 0..4000) /\ WeaklyDominatedRef(e.pts, e.ref) /\ e.k \in 1..Len(e.pts)
  /\ Hssp2DAnswerOK(e.pts, e.k, e.ref, e.ret)

CaseOK(e) ==
  /\ e.op # "hssp2" => PointsOK(e.pts)
  /\ e.op = "hssp2" => Case2DOK(e)
  /\ CASE e.op = "hv"    -> RefOK(e.pts, e.ref) /\ e.ret \in HVAllowed(e.pts, Idx(e.pts), e.ref)
       [] e.op = "rank"  -> RankAnswerOK(e.pts, e.pen, e.nb, e.ret)
       [] e.op = "front" -> /\ Len(e.ret) = Len(e.pts)
                            /\ \A i \in Idx(e.pts) : (e.ret[i] = 1) <=> (i \in FrontIdx(e.pts, Idx(e.pts)))
       [] e.op = "hssp"  -> RefOK(e.pts, e.ref) /\ e.k \in 1..Len(e.pts) /\ HsspAnswerOK(e.pts, e.k, e.ref, e.ret)
       [] e.op = "hssp2" -> TRUE      \* judged below (large 2-D integer coordinates, exact sweep oracle)
       [] OTHER -> FALSE

vars == <<tix, l>>
Init == TraceInitBase
Step == Consume /\ CaseOK(Ev)
Next == Step
Spec == Init /\ [][Next]_vars
==============================================================================
