SPECIFICATION Spec
CONSTANTS MaxS = 1  MaxT = 2  MaxCalls = 3  MaxReads = 2  Sim = FALSE  Rich = FALSE
VIEW View
INVARIANT Inv
INVARIANT ReadFormulationsAgree
INVARIANT HandlesWellFormed
PROPERTY HandlesNeverChange
CHECK_DEADLOCK FALSE
