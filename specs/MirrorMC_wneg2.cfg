SPECIFICATION Spec
CONSTANTS Dim = 2  MaxN = 3  MaxV = 2
INVARIANT WilcoxonSafetyNeverDecides
CHECK_DEADLOCK FALSE
