SPECIFICATION Spec
CONSTANTS MaxEv = 2  FinalStates = {"COMPLETE"}
INVARIANT NeverRejects
CHECK_DEADLOCK FALSE
