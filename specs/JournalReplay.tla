------------------------------ MODULE JournalReplay ------------------------------
(* C06: the state of a journal-backed storage is a function of the log prefix alone.                 *)
(*                                                                                                  *)
(* Property level: Fold(log) — the left fold of the Storage contract's operators over the abstract   *)
(* operations in log order, a rejected operation changing nothing.  Every worker that has read k     *)
(* records must show Project(Fold(first k records)), however it got there.                           *)
(*                                                                                                  *)
(* Algorithm level (optuna/storages/journal/_storage.py): each worker keeps a cursor and a replayed  *)
(* state; apply_logs advances the cursor one record at a time and applies the record; a record that  *)
(* is rejected raises only in the worker that issued it — the batch stops there and the rest is read *)
(* again on the next sync; snapshots store (cursor, state) and a restored worker replays the tail.   *)
EXTENDS Storage
CONSTANT EagerCursor      \* FALSE = the code's rule; TRUE = a deliberately wrong variant (negative test of the model)

\* one logged operation: [w |-> issuer, op |-> abstract call record as in StorageTrace events]
ApplyOp(st, op) ==
  CASE op.a = "create_study"  -> DoCreateStudy(st, op.name, op.dirs)
    [] op.a = "delete_study"  -> DoDeleteStudy(st, op.s)
    [] op.a = "set_study_ua"  -> DoSetStudyAttr(st, "ua", op.s, op.key, op.v)
    [] op.a = "set_study_sa"  -> DoSetStudyAttr(st, "sa", op.s, op.key, op.v)
    [] op.a = "create_trial"  -> DoCreateTrial(st, op.s, op.tm)
    [] op.a = "set_param"     -> DoSetParam(st, op.t, op.name, op.v, op.d)
    [] op.a = "set_state"     -> DoSetStateValues(st, op.t, op.state, op.values)
    [] op.a = "set_iv"        -> DoSetIV(st, op.t, op.step, op.v)
    [] op.a = "set_trial_ua"  -> DoSetTrialAttr(st, "ua", op.t, op.key, op.v)
    [] op.a = "set_trial_sa"  -> DoSetTrialAttr(st, "sa", op.t, op.key, op.v)

OpDefined(st, op) ==
  /\ op.a = "set_param" => SetParamDefined(st, op.t, op.name, op.d)
  /\ op.a = "set_state" => SetStateDefined(op.state, op.values)
  /\ op.a = "create_trial" => CreateTrialDefined(st, op.s, op.tm)

RECURSIVE FoldFrom(_, _, _, _)
FoldFrom(st, log, i, j) == IF i > j THEN st ELSE FoldFrom(ApplyOp(st, log[i].op).st, log, i + 1, j)
Fold(log, k) == FoldFrom(Empty, log, 1, k)              \* state after the first k records

Rejected(log, k) == ApplyOp(Fold(log, k - 1), log[k].op).ret.k = "err"
ErrorOf(log, k)  == ApplyOp(Fold(log, k - 1), log[k].op).ret.v

\* ------------------------------------------------------------------ the replay algorithm, one batch
\* Apply records cur+1..upto to (st, cur) as worker w does: stop after a rejected record of its own.
RECURSIVE RunBatch(_, _, _, _, _)
RunBatch(w, log, st, cur, upto) ==        \* returns [st, cur, raised]
  IF cur >= upto THEN [st |-> st, cur |-> cur, raised |-> "none"]
  ELSE LET rec == log[cur + 1]
           r == ApplyOp(st, rec.op) IN
       IF r.ret.k = "err" /\ rec.w = w
         THEN [st |-> st, cur |-> IF EagerCursor THEN upto ELSE cur + 1, raised |-> r.ret.v]   \* the issuer raises
         ELSE RunBatch(w, log, r.st, cur + 1, upto)
=================================================================================
