SPECIFICATION Spec
CONSTANTS MaxS = 3  MaxT = 4  MaxCalls = 14
CHECK_DEADLOCK FALSE
