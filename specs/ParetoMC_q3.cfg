SPECIFICATION Spec
CONSTANTS Dim = 3  MaxN = 2  MaxC = 1  WithInf = TRUE
INVARIANT RankZeroIsFront
INVARIANT RankRespectsDom
INVARIANT RankHasWitness
INVARIANT HVOfFront
INVARIANT HVMonotone
INVARIANT HVSubmodular
INVARIANT GreedyMeetsBound
INVARIANT SweepEqualsCells
CHECK_DEADLOCK FALSE
