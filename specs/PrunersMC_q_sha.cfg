SPECIFICATION Spec
CONSTANTS Family = "sha"  MaxTrials = 3  MaxStep = 2  MaxVal = 1  MaxReports = 4  WithNaN = TRUE  WithFail = FALSE
INVARIANT AlgoWithinEnvelope
INVARIANT EnvelopeSatisfiable
INVARIANT CheckStepIsCode
INVARIANT NopNeverPrunes
CHECK_DEADLOCK FALSE
