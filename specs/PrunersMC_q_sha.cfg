SPECIFICATION Spec
CONSTANTS Family = "sha"  MaxTrials = 2  MaxStep = 2  MaxVal = 1  MaxReports = 3  WithNaN = TRUE
          FinishStates = {"COMPLETE"}
INVARIANT AlgoWithinEnvelope
INVARIANT EnvelopeSatisfiable
INVARIANT CheckStepIsCode
INVARIANT NopNeverPrunes
CHECK_DEADLOCK FALSE
