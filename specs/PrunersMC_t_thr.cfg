SPECIFICATION Spec
CONSTANTS Family = "thr"  MaxTrials = 1  MaxStep = 5  MaxVal = 1  MaxReports = 6  WithNaN = TRUE
          FinishStates = {"COMPLETE"}
INVARIANT AlgoWithinEnvelope
INVARIANT EnvelopeSatisfiable
INVARIANT CheckStepIsCode
INVARIANT NopNeverPrunes
CHECK_DEADLOCK FALSE
