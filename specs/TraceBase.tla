------------------------------ MODULE TraceBase ------------------------------
(* Common part of every trace-validation module.                                                   *)
(* One TLC run validates a whole batch: the file named by the environment variable TRACE_FILE      *)
(* holds one JSON object per line, [tid |-> Int, ev |-> <<event, ...>>, ...]; every trace is its   *)
(* own initial state (tix ranges over the batch), events are consumed one at a time, and a trace   *)
(* is accepted iff some behaviour consumes all of its events.  Acceptance is reported by printing  *)
(* <<"ACC", tid>>; with VERIF_DIAG=1 every reached position is printed as <<"AT", tid, l>> so that  *)
(* the harness can name the first event no spec action explains.                                   *)
EXTENDS Json, IOUtils, TLC, Sequences, Integers

Traces == ndJsonDeserialize(IOEnv.TRACE_FILE)
Diag   == IOEnv.VERIF_DIAG = "1"

VARIABLES tix,   \* index of the trace in the batch
          l      \* position of the next event to consume

Trace   == Traces[tix]
Events  == Trace.ev
Ev      == Events[l]
HasEv   == l <= Len(Events)
Consume == HasEv /\ l' = l + 1 /\ UNCHANGED tix
TraceInitBase == tix \in 1..Len(Traces) /\ l = 1

\* Evaluated as an INVARIANT (always TRUE): side effects only.
Report == /\ (l = Len(Events) + 1) => PrintT(<<"ACC", Trace.tid>>)
          /\ Diag => PrintT(<<"AT", Trace.tid, l>>)
==============================================================================
