------------------------------- MODULE HandlesMC -------------------------------
(* Bounded instance of Handles: every history of at most MaxCalls storage writes (the calls of      *)
(* StorageMC, same argument pools) interleaved with at most MaxReads reads through the abstract     *)
(* getters.  TLC checks HandlesNeverChange on every transition, that the two formulations of "what  *)
(* a getter returns" agree, and — vacuity guard, action StaleHandle — that states are reachable in  *)
(* which a held handle differs from what the same getter would return now.  With -simulate the      *)
(* behaviours are the read/write histories which harness/c20.py executes on the real backends       *)
(* (variable `last` = the call).                                                                    *)
EXTENDS Handles
CONSTANTS MaxS, MaxT, MaxCalls, MaxReads,
          Sim,       \* TRUE for -simulate (history generation): only writes that succeed, writes paced by reads,
                     \* no StaleHandle; FALSE in the exhaustive instances
          Rich       \* TRUE: the larger argument pools (simulation, thorough tier)

VARIABLES n, nr, last
vars == <<st, handles, n, nr, last>>
View == <<st, handles, n, nr>>                  \* `last` is an observation variable

StudyNames == IF Rich THEN {"A", "auto"} ELSE {"A"}
DirsPool   == IF Rich THEN {<<0>>, <<1>>, <<0, 1>>} ELSE {<<0>>, <<0, 1>>}
SIds       == 0..MaxS
TIds       == 0..MaxT
Keys       == {"k1"}
AttrVals   == IF Rich THEN {0, 1} ELSE {0}
Names      == {"x"}
DF  == [c |-> "float", g |-> 0, k |-> 0]
DC0 == [c |-> "cat", g |-> 0, k |-> 0]
DistPool   == {DF, DC0}
ParamVals  == {3}
Steps      == {"0", "1"}
IVals      == IF Rich THEN {0, NaNV} ELSE {NaNV}
ValuesPool == IF Rich THEN {NoneV, <<0>>, <<3>>, <<PosInfV>>} ELSE {NoneV, <<0>>}
Templates  ==
  { [has |-> 0],
    [has |-> 1, state |-> "WAITING", values |-> NoneV, params |-> EmptyMap, ua |-> [k1 |-> 1], sa |-> EmptyMap,
     iv |-> EmptyMap, ts |-> 0, tc |-> 0],
    [has |-> 1, state |-> "COMPLETE", values |-> <<0>>, params |-> [x |-> [d |-> DF, v |-> 3]], ua |-> EmptyMap,
     sa |-> [k1 |-> 0], iv |-> ("0" :> NaNV), ts |-> 1, tc |-> 2] }
StatesPool == IF Rich THEN {<<"ALL">>, <<"WAITING">>, <<"COMPLETE", "RUNNING">>} ELSE {<<"ALL">>, <<"COMPLETE", "RUNNING">>}
Kinds      == {"trial", "trials", "studies", "sattr", "tattr", "best", "sbest", "pareto"}

Targets(g) ==
  CASE g = "trial"   -> {Tgt(0, t, "-", <<>>) : t \in 1..MaxT}
    [] g = "trials"  -> {Tgt(s, 0, "-", q) : s \in 1..MaxS, q \in StatesPool}
    [] g = "studies" -> {Tgt(0, 0, "-", <<>>)}
    [] g = "sattr"   -> {Tgt(s, 0, f, <<>>) : s \in 1..MaxS, f \in {"ua", "sa"}}
    [] g = "tattr"   -> {Tgt(0, t, f, <<>>) : t \in 1..MaxT, f \in {"ua", "sa", "params"}}
    [] g = "best"    -> {Tgt(s, 0, "-", <<>>) : s \in 1..MaxS}
    [] g = "sbest"   -> {Tgt(s, 0, "-", <<>>) : s \in 1..MaxS}
    [] g = "pareto"  -> {Tgt(s, 0, "-", <<>>) : s \in 1..MaxS}

Init == st = Empty /\ handles = <<>> /\ n = 0 /\ nr = 0 /\ last = [a |-> "init"]

Step(r, call) ==
  /\ Write(r) /\ n < MaxCalls /\ n' = n + 1 /\ last' = [call EXCEPT !.ret = r.ret] /\ UNCHANGED nr
  /\ Sim => r.ret.k = "ok" /\ (n <= 2 * nr + 3 \/ nr = MaxReads)

CreateStudy(name, dirs) ==
  Len(st.studies) < MaxS /\ Step(DoCreateStudy(st, name, dirs), [a |-> "create_study", name |-> name, dirs |-> dirs, ret |-> 0])
DeleteStudy(s) == s \in SIds /\ (Sim => n >= MaxCalls - 4) /\ Step(DoDeleteStudy(st, s), [a |-> "delete_study", s |-> s, ret |-> 0])
SetStudyAttr(which, s, key, v) ==
  s \in SIds /\ Step(DoSetStudyAttr(st, which, s, key, v),
       [a |-> IF which = "ua" THEN "set_study_ua" ELSE "set_study_sa", s |-> s, key |-> key, v |-> v, ret |-> 0])
CreateTrial(s, tm) ==
  Len(st.trials) < MaxT /\ Step(DoCreateTrial(st, s, tm), [a |-> "create_trial", s |-> s, tm |-> tm, ret |-> 0])
SetParam(t, name, v, d) ==
  SetParamDefined(st, t, name, d) /\
  Step(DoSetParam(st, t, name, v, d), [a |-> "set_param", t |-> t, name |-> name, v |-> v, d |-> d, ret |-> 0])
SetState(t, state, vals) ==
  SetStateDefined(state, vals) /\
  Step(DoSetStateValues(st, t, state, vals), [a |-> "set_state", t |-> t, state |-> state, values |-> vals, ret |-> 0])
SetIV(t, step, v) == t \in TIds /\ Step(DoSetIV(st, t, step, v), [a |-> "set_iv", t |-> t, step |-> step, v |-> v, ret |-> 0])
SetTrialAttr(which, t, key, v) ==
  t \in TIds /\ Step(DoSetTrialAttr(st, which, t, key, v),
       [a |-> IF which = "ua" THEN "set_trial_ua" ELSE "set_trial_sa", t |-> t, key |-> key, v |-> v, ret |-> 0])

ReadAct(g, x) ==
  /\ nr < MaxReads /\ nr' = nr + 1
  /\ \E v \in ReadVals(st, g, x) : Read(g, x, v)
  /\ last' = [a |-> "read", g |-> g, x |-> x]
  /\ UNCHANGED n

\* observation only (enabled in the exhaustive instances): some held handle is no longer what its getter returns now
StaleHandle ==
  /\ ~Sim
  /\ \E i \in 1..Len(handles) : Stale(st, handles[i])
  /\ last' = [a |-> "stale"]
  /\ UNCHANGED <<st, handles, n, nr>>

Next ==
  \/ \E name \in StudyNames, dirs \in DirsPool : CreateStudy(name, dirs)
  \/ \E s \in SIds : DeleteStudy(s)
  \/ \E which \in {"ua", "sa"}, s \in SIds, key \in Keys, v \in AttrVals : SetStudyAttr(which, s, key, v)
  \/ \E s \in SIds, tm \in Templates : CreateTrial(s, tm)
  \/ \E t \in TIds, name \in Names, v \in ParamVals, d \in DistPool : SetParam(t, name, v, d)
  \/ \E t \in TIds, state \in States, vals \in ValuesPool : SetState(t, state, vals)
  \/ \E t \in TIds, step \in Steps, v \in IVals : SetIV(t, step, v)
  \/ \E which \in {"ua", "sa"}, t \in TIds, key \in Keys, v \in AttrVals : SetTrialAttr(which, t, key, v)
  \/ \E g \in Kinds : \E x \in Targets(g) : ReadAct(g, x)
  \/ StaleHandle
Spec == Init /\ [][Next]_vars

\* ------------------------------------------------------------------ what TLC checks
Inv == StateInv(st)
\* the set formulation (used here) and the predicate formulation (used by HandlesTrace) of a getter agree
ReadFormulationsAgree ==
  \A g \in Kinds : \A x \in Targets(g) : \A v \in ReadVals(st, g, x) : ReadOK(st, g, x, v)
\* every handle was an admissible reply when it was handed out (by construction) and keeps its shape
HandlesWellFormed == \A i \in 1..Len(handles) : handles[i].g \in Kinds /\ handles[i].x \in Targets(handles[i].g)
================================================================================
