SPECIFICATION Spec
CONSTANTS MaxN = 3  Caps = {2, 9}  MaxEnq = 1
INVARIANT NoError
CHECK_DEADLOCK FALSE
