------------------------------- MODULE Pruners -------------------------------
(* Property-level specification of C16: the SAFETY ENVELOPE of the pruners.                        *)
(*                                                                                                 *)
(* A study is a sequence of trials (index = trial number + 1); a trial has a state and the         *)
(* intermediate values it reported (step -> value; small integers, NaN is the sentinel below).      *)
(* The history is built by the actions NewTrial, ReportVal, ShouldPrune, Finish in the order the real  *)
(* calls study.ask / trial.report / trial.should_prune / study.tell were made.  ShouldPrune(c,t,d)  *)
(* carries the decision d the pruner with configuration c gave; it is enabled only if d is inside   *)
(* the envelope, which the spec recomputes from the history it has consumed:                        *)
(*   - nop            : never prunes                                                                *)
(*   - threshold      : prunes EXACTLY when the step is a check step and the checked value is NaN   *)
(*                      or outside [lo, hi]                                                         *)
(*   - percentile/median : no pruning before warm-up (last step < n_warmup_steps), with fewer than  *)
(*                      n_startup_trials finished trials, between pruning checks, or of a trial     *)
(*                      that is strictly best everywhere                                            *)
(*   - sha            : no pruning before the first rung (min_resource * rf^min_early_stopping_rate)*)
(*                      and, without bootstrap, of a strictly-best trial                            *)
(*   - hyperband      : no pruning before min_resource steps and, without bootstrap, of a           *)
(*                      strictly-best trial                                                         *)
(*   - patient(w)     : no pruning inside the patience window; otherwise only what w may prune      *)
(* Everything else is left open (the envelope never REQUIRES pruning except for threshold).         *)
EXTENDS Integers, Sequences, FiniteSets, TLC

NaN  == 9999            \* the reported value float("nan")
NoLo == -1000           \* ThresholdPruner(lower=None)
NoHi == 1000            \* ThresholdPruner(upper=None)
Finished == {"COMPLETE", "PRUNED", "FAIL"}

VARIABLE trials         \* <<[st |-> state, iv |-> [step -> value]], ...>>

Num         == 0..(Len(trials) - 1)
T(t)        == trials[t + 1]
Steps(t)    == DOMAIN T(t).iv
Val(t, s)   == T(t).iv[s]
SetMax(S)   == CHOOSE x \in S : \A y \in S : y <= x
SetMin(S)   == CHOOSE x \in S : \A y \in S : x <= y
NoReports(t) == Steps(t) = {}
LastStep(t) == SetMax(Steps(t))                    \* FrozenTrial.last_step (only if ~NoReports)
Better(dir, a, b) == IF dir = "min" THEN a < b ELSE a > b          \* a strictly better than b

RECURSIVE Pow(_, _)
Pow(b, e) == IF e <= 0 THEN 1 ELSE b * Pow(b, e - 1)

\* ------------------------------------------------------------------ features of the envelope
\* "Pruning is disabled until the trial exceeds the given number of step" / report(): "simply checks
\* if step is less than n_warmup_steps".
BeforeWarmup(t, nwu) == NoReports(t) \/ LastStep(t) < nwu

\* "Pruning is disabled until the given number of trials finish in the same study."
NFinished == Cardinality({u \in Num : T(u).st \in Finished})
FewerThanStartup(nst) == NFinished < nst

\* "Interval in number of steps between the pruning checks, offset by the warmup steps.  If no value
\* has been reported at the time of a pruning check, that particular check will be postponed until a
\* value is reported."  Check points are nwu + k * ivl; the last step s is a check step iff for some
\* check point c <= s no other value was reported in [c, s).
CheckStep(t, nwu, ivl) ==
  /\ ~NoReports(t)
  /\ LET s == LastStep(t) IN
       /\ s >= nwu
       /\ \E k \in 0..s : LET c == nwu + k * ivl IN
                            c <= s /\ \A x \in Steps(t) : ~(c <= x /\ x < s)

\* "each of whose reported values is strictly better than every value reported so far by any other
\* trial".  NaN is neither better nor worse than anything: a NaN anywhere makes the premise false.
StrictlyBest(t, dir) ==
  \A s \in Steps(t) :
     /\ Val(t, s) # NaN
     /\ \A u \in Num \ {t} : \A x \in Steps(u) : Val(u, x) # NaN /\ Better(dir, Val(t, s), Val(u, x))

\* Patience window: the most recent pat + 1 reported steps.  A trial is inside the window while it
\* has at most pat + 1 reports, or while the best value of the window is not worse (by more than
\* min_delta) than the best value before the window.
InPatience(t, dir, pat, md) ==
  LET S == Steps(t) IN
  \/ Cardinality(S) <= pat + 1
  \/ LET after  == {s \in S : Cardinality({x \in S : x > s}) <= pat}
         before == S \ after
         av     == {Val(t, s) : s \in after} \ {NaN}
         bv     == {Val(t, s) : s \in before} \ {NaN}
     IN  /\ av # {} /\ bv # {}
         /\ IF dir = "min" THEN ~(SetMin(bv) + md < SetMin(av))
                           ELSE ~(SetMax(bv) - md > SetMax(av))

ThresholdPrunes(c, t) ==
  /\ CheckStep(t, c.nwu, c.ivl)
  /\ LET v == Val(t, LastStep(t)) IN v = NaN \/ v < c.lo \/ v > c.hi

\* "A trial is never pruned until it executes min_resource * reduction_factor^min_early_stopping_rate
\* steps"; minres = 0 stands for min_resource="auto" (no such promise is made then).
BeforeFirstRung(c, t) ==
  NoReports(t) \/ (c.minres > 0 /\ LastStep(t) < c.minres * Pow(c.rf, c.mesr))

\* ------------------------------------------------------------------ the envelope
MayPruneBase(c, t) ==      \* FALSE = the contract protects trial t from pruner c in this history
  CASE c.kind = "nop"        -> FALSE
    [] c.kind = "threshold"  -> ThresholdPrunes(c, t)
    [] c.kind \in {"percentile", "median"} ->
          /\ ~BeforeWarmup(t, c.nwu)
          /\ ~FewerThanStartup(c.nst)
          /\ CheckStep(t, c.nwu, c.ivl)
          /\ ~StrictlyBest(t, c.dir)
    [] c.kind = "sha"        ->
          /\ ~BeforeFirstRung(c, t)
          /\ (c.boot = 0 => ~StrictlyBest(t, c.dir))
    [] c.kind = "hyperband"  ->
          /\ ~NoReports(t)
          /\ LastStep(t) >= c.minres
          /\ (c.boot = 0 => ~StrictlyBest(t, c.dir))
    [] OTHER -> FALSE

MayPrune(c, t) ==
  IF c.kind = "patient"
  THEN /\ ~InPatience(t, c.dir, c.pat, c.md)
       /\ (c.w.kind = "none" \/ MayPruneBase(c.w, t))
  ELSE MayPruneBase(c, t)

MustPrune(c, t) == c.kind = "threshold" /\ ThresholdPrunes(c, t)

Allowed(c, t, d) == (d => MayPrune(c, t)) /\ (MustPrune(c, t) => d)

\* ------------------------------------------------------------------ the history state machine
Running(t) == t \in Num /\ T(t).st = "RUNNING"

PInit == trials = <<>>

NewTrial == trials' = Append(trials, [st |-> "RUNNING", iv |-> <<>>])

\* "If this method is called multiple times at the same step in a trial, the reported value only the
\* first time is stored."
ReportVal(t, s, v) ==
  /\ Running(t)
  /\ trials' = [trials EXCEPT ![t + 1].iv = IF s \in DOMAIN @ THEN @ ELSE @ @@ (s :> v)]

ShouldPrune(c, t, d) == Running(t) /\ Allowed(c, t, d) /\ UNCHANGED trials

Finish(t, st) ==
  /\ Running(t) /\ st \in Finished
  /\ trials' = [trials EXCEPT ![t + 1].st = st]
===============================================================================
