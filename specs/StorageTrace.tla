----------------------------- MODULE StorageTrace -----------------------------
(* Trace validation of one real storage backend against the Storage contract (C01).                 *)
(* A trace is the sequence of calls one client issued on one backend object; each event records the *)
(* call (a = method, abstract arguments), the reply (ret = [k, v]) and, if p = 1, the whole readable*)
(* state read back through get_all_studies / get_all_trials right after the call (post).  Ids in    *)
(* the trace are creation-order indices maintained by the harness; the raw integer a create call    *)
(* returned is logged as `raw` and freshness is decided here.                                       *)
EXTENDS Storage, TraceBase

VARIABLES st,      \* abstract storage state
          rawS,    \* raw study id by abstract index
          rawT,    \* raw trial id by abstract index
          flags    \* history flags of recorded findings (K2: raw id reused after deletion)
vars == <<tix, l, st, rawS, rawT, flags>>

RetEq(a, b) == a.k = b.k /\ a.v = b.v
PostOK(s)   == Ev.p = 1 => Ev.post = Project(s)
Same        == UNCHANGED <<st, rawS, rawT, flags>>
Getter(ok)  == ok /\ PostOK(st) /\ Same
Setter(r)   == st' = r.st /\ RetEq(Ev.ret, r.ret) /\ PostOK(r.st) /\ UNCHANGED <<rawS, rawT, flags>>
Is(name)    == Consume /\ Ev.a = name
Range(f)    == {f[i] : i \in 1..Len(f)}

\* a call outside the defined contract ends the judged part of the trace (reported as UNDEF, never a verdict)
Undefined ==
  /\ HasEv
  /\ \/ Ev.a = "set_param" /\ ~SetParamDefined(st, Ev.t, Ev.name, Ev.d)
     \/ Ev.a = "create_trial" /\ ~CreateTrialDefined(st, Ev.s, Ev.tm)
     \/ Ev.a = "set_state" /\ ~SetStateDefined(Ev.state, Ev.values)
  /\ PrintT(<<"UNDEF", Trace.tid, l>>)
  /\ l' = Len(Events) + 1 /\ UNCHANGED <<tix, st, rawS, rawT, flags>>

TCreateStudy ==
  /\ Is("create_study")
  /\ LET r == DoCreateStudy(st, Ev.name, Ev.dirs) IN
       /\ st' = r.st /\ RetEq(Ev.ret, r.ret) /\ PostOK(r.st)
       /\ IF r.ret.k = "ok"
            THEN /\ Ev.raw \notin {rawS[s] : s \in LiveStudyIds(st)}          \* fresh among live ids
                 /\ rawS' = Append(rawS, Ev.raw)
                 /\ flags' = IF Ev.raw \in Range(rawS) THEN flags \cup {"K2"} ELSE flags
            ELSE UNCHANGED <<rawS, flags>>
       /\ UNCHANGED rawT

TCreateTrial ==
  /\ Is("create_trial") /\ CreateTrialDefined(st, Ev.s, Ev.tm)
  /\ LET r == DoCreateTrial(st, Ev.s, Ev.tm) IN
       /\ st' = r.st /\ RetEq(Ev.ret, r.ret) /\ PostOK(r.st)
       /\ IF r.ret.k = "ok"
            THEN /\ Ev.raw \notin {rawT[t] : t \in LiveTrialIds(st)}
                 /\ rawT' = Append(rawT, Ev.raw)
                 /\ flags' = IF Ev.raw \in Range(rawT) THEN flags \cup {"K2"} ELSE flags
            ELSE UNCHANGED <<rawT, flags>>
       /\ UNCHANGED rawS

TDeleteStudy     == Is("delete_study")  /\ Setter(DoDeleteStudy(st, Ev.s))
TSetStudyUA      == Is("set_study_ua")  /\ Setter(DoSetStudyAttr(st, "ua", Ev.s, Ev.key, Ev.v))
TSetStudySA      == Is("set_study_sa")  /\ Setter(DoSetStudyAttr(st, "sa", Ev.s, Ev.key, Ev.v))
TSetParam        == Is("set_param")     /\ SetParamDefined(st, Ev.t, Ev.name, Ev.d)
                                        /\ Setter(DoSetParam(st, Ev.t, Ev.name, Ev.v, Ev.d))
TSetState        == Is("set_state")     /\ SetStateDefined(Ev.state, Ev.values)
                                        /\ Setter(DoSetStateValues(st, Ev.t, Ev.state, Ev.values))
TSetIV           == Is("set_iv")        /\ Setter(DoSetIV(st, Ev.t, Ev.step, Ev.v))
TSetTrialUA      == Is("set_trial_ua")  /\ Setter(DoSetTrialAttr(st, "ua", Ev.t, Ev.key, Ev.v))
TSetTrialSA      == Is("set_trial_sa")  /\ Setter(DoSetTrialAttr(st, "sa", Ev.t, Ev.key, Ev.v))

TGetStudyId      == Is("get_study_id_from_name") /\ Getter(StudyIdFromNameOK(st, Ev.name, Ev.ret))
TGetStudyName    == Is("get_study_name")   /\ Getter(StudyFieldOK(st, "name", Ev.s, Ev.ret))
TGetStudyDirs    == Is("get_study_dirs")   /\ Getter(StudyFieldOK(st, "dirs", Ev.s, Ev.ret))
TGetStudyUA      == Is("get_study_ua")     /\ Getter(StudyFieldOK(st, "ua", Ev.s, Ev.ret))
TGetStudySA      == Is("get_study_sa")     /\ Getter(StudyFieldOK(st, "sa", Ev.s, Ev.ret))
TGetAllStudies   == Is("get_all_studies")  /\ Getter(Ev.ret.k = "ok" /\ Ev.ret.v = AllStudies(st))
TGetTrial        == Is("get_trial")        /\ Getter(TrialOK(st, Ev.t, Ev.ret))
TGetAllTrials    == Is("get_all_trials")   /\ Getter(AllTrialsOK(st, Ev.s, Ev.states, Ev.ret))
TGetNTrials      == Is("get_n_trials")     /\ Getter(NTrialsOK(st, Ev.s, Ev.state, Ev.ret))
TGetBest         == Is("get_best_trial")   /\ Getter(BestTrialOK(st, Ev.s, Ev.ret))
TGetIdFromNumber == Is("get_trial_id_from_number") /\ Getter(TrialIdFromNumberOK(st, Ev.s, Ev.n, Ev.ret))
TGetNumber       == Is("get_trial_number") /\ Getter(TrialNumberOK(st, Ev.t, Ev.ret))
TGetParam        == Is("get_trial_param")  /\ Getter(TrialParamOK(st, Ev.t, Ev.name, Ev.ret))
TGetParams       == Is("get_trial_params") /\ Getter(TrialFieldOK(st, "params", Ev.t, Ev.ret))
TGetTrialUA      == Is("get_trial_ua")     /\ Getter(TrialFieldOK(st, "ua", Ev.t, Ev.ret))
TGetTrialSA      == Is("get_trial_sa")     /\ Getter(TrialFieldOK(st, "sa", Ev.t, Ev.ret))

Init == TraceInitBase /\ st = Empty /\ rawS = <<>> /\ rawT = <<>> /\ flags = {}

Next == \/ Undefined
        \/ TCreateStudy \/ TDeleteStudy \/ TSetStudyUA \/ TSetStudySA \/ TCreateTrial \/ TSetParam \/ TSetState
        \/ TSetIV \/ TSetTrialUA \/ TSetTrialSA
        \/ TGetStudyId \/ TGetStudyName \/ TGetStudyDirs \/ TGetStudyUA \/ TGetStudySA \/ TGetAllStudies
        \/ TGetTrial \/ TGetAllTrials \/ TGetNTrials \/ TGetBest \/ TGetIdFromNumber \/ TGetNumber
        \/ TGetParam \/ TGetParams \/ TGetTrialUA \/ TGetTrialSA
Spec == Init /\ [][Next]_vars

\* contract invariants, evaluated in every state of every trace
Inv == StateInv(st)
FlagReport == (l = Len(Events) + 1 /\ flags # {}) => PrintT(<<"FLAG", Trace.tid, flags>>)
==============================================================================
