----------------------------- MODULE HeartbeatClock -----------------------------
(* C19, the time side of "a RUNNING trial whose heartbeat is older than the grace period" / "trials with a fresh      *)
(* heartbeat are never touched": one database clock with one-second resolution (RDBStorage decides staleness on the     *)
(* database's clock only: func.now() for the beat and for the sweep).                                                  *)
(*   Start(t)  the worker of t starts: optimize's heartbeat thread records the first beat at once (_heartbeat.py)       *)
(*   Beat(t)   the thread's next record_heartbeat: due every Interval seconds, at most MaxDelay seconds late             *)
(*   Die(t)    the worker dies: no more beats, the trial stays RUNNING                                                  *)
(*   Tick      one second passes (not past a live worker's latest permitted beat)                                       *)
(*   Sweep     _get_stale_trial_ids + FAIL: every RUNNING trial with a heartbeat row whose age is older than Grace       *)
(* Older is the comparison under test: strictly older (the code: `now - heartbeat > grace`) or `>=` (StrictOlder =      *)
(* FALSE, negative instance).  With the documented default Grace = 2 * Interval a live worker whose beat is one whole   *)
(* interval late has age = Grace exactly: only the strict comparison keeps it alive.                                    *)
(* HeartbeatTrace.BeatOf is the same Older on logged ages (family "clock" of harness/c19.py).                           *)
EXTENDS Integers, FiniteSets
CONSTANTS Trials, Interval, Grace, MaxDelay, MaxNow, StrictOlder
VARIABLES now,      \* the database clock, seconds
          last,     \* trial -> time of its heartbeat row, -1 = no row
          alive,    \* trial -> its worker is running
          due,      \* trial -> when the live worker's next beat is due
          failed    \* trials the sweep has moved to FAIL
vars == <<now, last, alive, due, failed>>

Older(age) == IF StrictOlder THEN age > Grace ELSE age >= Grace

Init == /\ now = 0 /\ last = [t \in Trials |-> -1] /\ alive = [t \in Trials |-> FALSE]
        /\ due = [t \in Trials |-> 0] /\ failed = {}

Start(t) == /\ ~alive[t] /\ last[t] = -1 /\ t \notin failed
            /\ alive' = [alive EXCEPT ![t] = TRUE] /\ last' = [last EXCEPT ![t] = now]
            /\ due' = [due EXCEPT ![t] = now + Interval] /\ UNCHANGED <<now, failed>>
Beat(t) == /\ alive[t] /\ now >= due[t]
           /\ last' = [last EXCEPT ![t] = now] /\ due' = [due EXCEPT ![t] = now + Interval]
           /\ UNCHANGED <<now, alive, failed>>
Die(t) == /\ alive[t] /\ alive' = [alive EXCEPT ![t] = FALSE] /\ UNCHANGED <<now, last, due, failed>>
Tick == /\ now < MaxNow
        /\ \A t \in Trials : alive[t] => now < due[t] + MaxDelay
        /\ now' = now + 1 /\ UNCHANGED <<last, alive, due, failed>>
StaleNow == {t \in Trials \ failed : last[t] # -1 /\ Older(now - last[t])}
Sweep == /\ StaleNow # {} /\ failed' = failed \cup StaleNow
         /\ alive' = [t \in Trials |-> alive[t] /\ t \notin StaleNow]       \* its worker's writes are refused from now on
         /\ UNCHANGED <<now, last, due>>

Next == \/ \E t \in Trials : Start(t) \/ Beat(t) \/ Die(t)
        \/ Tick \/ Sweep
Spec == Init /\ [][Next]_vars

\* a worker that beats in time is never failed (the action property sees the moment of the FAIL)
LiveNeverFailed == [][\A t \in Trials : (t \in failed' /\ t \notin failed) => ~alive[t]]_vars
NoHeartbeatNeverFailed == \A t \in failed : last[t] # -1
\* a dead trial is failed by the first sweep after its age has passed the grace period, not earlier
DeadFailedOnlyWhenOlder == [][\A t \in Trials : (t \in failed' /\ t \notin failed) => now - last[t] > Grace]_vars
DeadOlderIsSwept == [][(failed' # failed) => \A t \in Trials \ failed' : last[t] = -1 \/ now - last[t] <= Grace]_vars
==================================================================================
