-------------------------------- MODULE Heartbeat --------------------------------
(* C19: stale-trial recovery fails and retries each dead trial at most once.                          *)
(*                                                                                                  *)
(* Algorithm level (optuna/storages/_heartbeat.py fail_stale_trials + RetryFailedTrialCallback):       *)
(*   ReadStale(w)   _get_stale_trial_ids: snapshot of the RUNNING trials whose heartbeat is stale       *)
(*   FailCAS(w)     set_trial_state_values(t, FAIL) on the next listed trial: True iff this call moved  *)
(*                  it from RUNNING to FAIL; a finished trial answers UpdateFinishedTrialError (skipped) *)
(*   Callback(w)    for every trial this worker failed: the callback appends the trial to the retry      *)
(*                  history and, unless max_retry is exceeded, queues a WAITING copy                     *)
(*   Claim / Die / Finish: the environment (a worker takes a queued retry, it dies again, or completes)  *)
(*   ZombieWrite(t) the worker of a stale trial is slow, not dead: it still writes a parameter / user attribute  *)
(*                  (ver = number of writes accepted so far; a finished trial refuses writes).  The callback      *)
(*                  reads the trial AFTER it is FAIL, so the copy it queues (orig) is the final content.          *)
(*   Crash(w)       the sweeping worker dies anywhere in its sweep                                       *)
(* AtomicCAS = FALSE splits FailCAS into the SELECT and the UPDATE of different SQLite connections (K1). *)
EXTENDS Integers, Sequences, FiniteSets, TLC
CONSTANTS Workers, MaxTrials, MaxRetry, AtomicCAS, InitStates,     \* MaxRetry = -1: unlimited
          MaxWrites                                                \* late writes per trial (0: every stale worker is dead)

VARIABLES trials,     \* sequence of [state, beat, hist, ver, orig]   beat \in {"none","fresh","stale"}; hist = retry history;
                      \* ver = content version (writes accepted so far); orig = version of the failed trial a retry was copied from
          failedBy,   \* trial -> set of workers whose FAIL request answered True
          called,     \* trial -> number of callback invocations
          pc, todo, mine, seen, alive
vars == <<trials, failedBy, called, pc, todo, mine, seen, alive>>

N == Len(trials)
Finished(s) == s \in {"COMPLETE", "FAIL"}
Stale == {t \in 1..N : trials[t].state = "RUNNING" /\ trials[t].beat = "stale"}
RECURSIVE SeqOf(_)
SeqOf(S) == IF S = {} THEN <<>> ELSE LET m == CHOOSE x \in S : \A y \in S : x <= y IN <<m>> \o SeqOf(S \ {m})

Init == /\ trials = [i \in 1..Len(InitStates) |-> [state |-> InitStates[i].state, beat |-> InitStates[i].beat, hist |-> <<>>, ver |-> 0, orig |-> 0]]
        /\ failedBy = [i \in 1..Len(InitStates) |-> {}] /\ called = [i \in 1..Len(InitStates) |-> 0]
        /\ pc = [w \in Workers |-> "idle"] /\ todo = [w \in Workers |-> <<>>] /\ mine = [w \in Workers |-> <<>>]
        /\ seen = [w \in Workers |-> "none"] /\ alive = Workers

ReadStale(w) ==
  /\ w \in alive /\ pc[w] = "idle"
  /\ todo' = [todo EXCEPT ![w] = SeqOf(Stale)] /\ mine' = [mine EXCEPT ![w] = <<>>]
  /\ pc' = [pc EXCEPT ![w] = "fail"]
  /\ UNCHANGED <<trials, failedBy, called, seen, alive>>

Won(w, t) == /\ trials' = [trials EXCEPT ![t].state = "FAIL"]
             /\ failedBy' = [failedBy EXCEPT ![t] = @ \cup {w}]
             /\ mine' = [mine EXCEPT ![w] = Append(@, t)]

FailCAS(w) ==
  /\ AtomicCAS /\ w \in alive /\ pc[w] = "fail" /\ todo[w] # <<>>
  /\ LET t == Head(todo[w]) IN
       IF ~Finished(trials[t].state) THEN Won(w, t) ELSE UNCHANGED <<trials, failedBy, mine>>
  /\ todo' = [todo EXCEPT ![w] = Tail(@)]
  /\ UNCHANGED <<called, pc, seen, alive>>
FailRead(w) ==
  /\ ~AtomicCAS /\ w \in alive /\ pc[w] = "fail" /\ todo[w] # <<>>
  /\ seen' = [seen EXCEPT ![w] = trials[Head(todo[w])].state] /\ pc' = [pc EXCEPT ![w] = "failw"]
  /\ UNCHANGED <<trials, failedBy, called, todo, mine, alive>>
FailWrite(w) ==
  /\ ~AtomicCAS /\ w \in alive /\ pc[w] = "failw"
  /\ LET t == Head(todo[w]) IN
       IF ~Finished(seen[w]) THEN Won(w, t) ELSE UNCHANGED <<trials, failedBy, mine>>
  /\ todo' = [todo EXCEPT ![w] = Tail(@)] /\ pc' = [pc EXCEPT ![w] = "fail"]
  /\ UNCHANGED <<called, seen, alive>>

StartCallbacks(w) ==
  /\ w \in alive /\ pc[w] = "fail" /\ todo[w] = <<>> /\ pc' = [pc EXCEPT ![w] = "cb"]
  /\ UNCHANGED <<trials, failedBy, called, todo, mine, seen, alive>>

Callback(w) ==
  /\ w \in alive /\ pc[w] = "cb" /\ mine[w] # <<>>
  /\ LET t == Head(mine[w])  h == Append(trials[t].hist, t) IN
       /\ IF (MaxRetry # -1 /\ MaxRetry < Len(h)) \/ N >= MaxTrials
            THEN UNCHANGED <<trials, failedBy>> /\ called' = [called EXCEPT ![t] = @ + 1]
            ELSE /\ trials' = Append(trials, [state |-> "WAITING", beat |-> "none", hist |-> h,
                                              ver |-> trials[t].ver, orig |-> trials[t].ver])     \* get_trial(t) now: t is FAIL
                 /\ failedBy' = Append(failedBy, {})
                 /\ called' = Append([called EXCEPT ![t] = @ + 1], 0)
  /\ mine' = [mine EXCEPT ![w] = Tail(@)]
  /\ UNCHANGED <<pc, todo, seen, alive>>

EndSweep(w) ==
  /\ w \in alive /\ pc[w] = "cb" /\ mine[w] = <<>> /\ pc' = [pc EXCEPT ![w] = "idle"]
  /\ UNCHANGED <<trials, failedBy, called, todo, mine, seen, alive>>

\* environment: a queued retry is taken by some worker and dies again (stale heartbeat) or completes
RetryDies(t) ==
  /\ t \in 1..N /\ trials[t].state = "WAITING"
  /\ trials' = [trials EXCEPT ![t].state = "RUNNING", ![t].beat = "stale"]
  /\ UNCHANGED <<failedBy, called, pc, todo, mine, seen, alive>>
\* the worker of a stale trial is alive after all and writes to its trial (accepted only while the trial is RUNNING)
ZombieWrite(t) ==
  /\ t \in 1..N /\ trials[t].state = "RUNNING" /\ trials[t].beat = "stale" /\ trials[t].ver - trials[t].orig < MaxWrites
  /\ trials' = [trials EXCEPT ![t].ver = @ + 1]
  /\ UNCHANGED <<failedBy, called, pc, todo, mine, seen, alive>>
Crash(w) ==
  /\ w \in alive /\ pc[w] # "idle" /\ Cardinality(alive) = Cardinality(Workers)
  /\ alive' = alive \ {w} /\ UNCHANGED <<trials, failedBy, called, pc, todo, mine, seen>>

Next == \/ \E w \in Workers : ReadStale(w) \/ FailCAS(w) \/ FailRead(w) \/ FailWrite(w) \/ StartCallbacks(w) \/ Callback(w)
                               \/ EndSweep(w) \/ Crash(w)
        \/ \E t \in 1..MaxTrials : RetryDies(t) \/ ZombieWrite(t)
Spec == Init /\ [][Next]_vars

FailedByAtMostOne  == \A t \in 1..N : Cardinality(failedBy[t]) <= 1
CallbackAtMostOnce == \A t \in 1..N : called[t] <= 1
RetriesBounded     == MaxRetry # -1 => \A t \in 1..N : Len(trials[t].hist) <= MaxRetry
AtMostOneRetryPerFailure == \A t \in 1..N : Cardinality({u \in 1..N : trials[u].hist = Append(trials[t].hist, t)}) <= 1
HistoryCorrect     == \A t \in 1..N : \A i \in 1..Len(trials[t].hist) :
                         LET p == trials[t].hist[i] IN p < t /\ trials[p].state = "FAIL" /\ trials[p].hist = SubSeq(trials[t].hist, 1, i - 1)
\* the retry carries the content (parameters, user attributes) the failed trial had when it became FAIL (= has for ever)
RetryCarriesContent == \A t \in 1..N : trials[t].hist # <<>> =>
                         LET p == trials[t].hist[Len(trials[t].hist)] IN trials[t].orig = trials[p].ver
\* trials without a heartbeat, with a fresh one, or finished are never touched by the sweep
Untouched == [][\A t \in 1..N : (trials[t].state # "RUNNING" \/ trials[t].beat # "stale") =>
                   (trials'[t] = trials[t] \/ (trials[t].state = "WAITING" /\ trials'[t].state = "RUNNING"))]_vars
==================================================================================
