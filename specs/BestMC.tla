-------------------------------- MODULE BestMC --------------------------------
(* Exhaustive instance of Best: every history of at most MaxN trials over the trial universe below   *)
(* (all five states, duplicate and infinite values, constraint classes none / feasible / violating,  *)
(* PRUNED and FAIL trials that carry temptingly good values) and every direction vector of length    *)
(* Dim is one reachable `judged' state.  The invariants are theorems about the oracle itself: the    *)
(* specification has to be consistent before it judges code.  The distinct states are the empty     *)
(* history, one per history built by AddTrial and one per (history, directions) input reached by     *)
(* Judge; the harness derives the number of inputs from that and compares it with what it enumerated.*)
EXTENDS Best
CONSTANTS Dim, MaxN, MaxC, InfMode      \* InfMode: 0 = finite only, 1 = with -inf, 2 = with -inf and +inf

Coords  == (0..MaxC) \cup (IF InfMode >= 1 THEN {NegInf} ELSE {}) \cup (IF InfMode >= 2 THEN {PosInf} ELSE {})

NoCons  == [hc |-> 0, c |-> <<>>]
FeasCon == [hc |-> 1, c |-> <<-1, 0>>]      \* all <= 0
ViolCon == [hc |-> 1, c |-> <<0, 1>>]       \* one satisfied, one violated

Vals    == [1..Dim -> Coords]
Tempt   == [1..Dim -> {NegInf, PosInf}]      \* values a PRUNED / FAIL trial may carry: best possible in some direction
Mk(s, v, k) == [s |-> s, v |-> v, hc |-> k.hc, c |-> k.c]

TrialUniverse ==
       {Mk("COMPLETE", v, k) : v \in Vals, k \in {NoCons, FeasCon, ViolCon}}
  \cup {Mk("PRUNED", v, k)   : v \in {<<>>} \cup Tempt, k \in {NoCons, FeasCon}}
  \cup {Mk("FAIL", v, NoCons): v \in {<<>>} \cup Tempt}
  \cup {Mk("RUNNING", <<>>, NoCons), Mk("WAITING", <<>>, NoCons)}

DirVecs == [1..Dim -> {Min, Max}]

VARIABLES h, dirs, phase
vars == <<h, dirs, phase>>

Init == h = <<>> /\ dirs = <<>> /\ phase = "build"
AddTrial(t) == phase = "build" /\ Len(h) < MaxN /\ h' = Append(h, t) /\ UNCHANGED <<dirs, phase>>
Judge(d)    == phase = "build" /\ dirs' = d /\ phase' = "judged" /\ UNCHANGED h
Next == (\E t \in TrialUniverse : AddTrial(t)) \/ (\E d \in DirVecs : Judge(d))
Spec == Init /\ [][Next]_vars
Judged == phase = "judged"

C  == Complete(h)
EB == EligibleBest(h, dirs[1])
PB == PlainBest(h, dirs[1])
PS == ParetoSet(h, dirs)
L  == Losses(h, dirs)
Unconstrained == ~Constrained(h)
OkT(i) == [k |-> "ok", n |-> i - 1, e |-> ""]
ErrR(cls) == [k |-> "err", n |-> -1, e |-> cls]

\* ---- single objective (stated for the first objective; meaningful when Dim = 1)
NonEmptyIffComplete == Judged /\ Dim = 1 => ((EB # {}) <=> (C # {})) /\ ((PB # {}) <=> (C # {}))
OnlyComplete        == Judged /\ Dim = 1 => EB \subseteq C /\ PB \subseteq C
PlainIsOptimum      == Judged /\ Dim = 1 => /\ \A i \in PB : \A j \in C : dirs[1] * Value(h, i) <= dirs[1] * Value(h, j)
                                            /\ \A i, j \in PB : Value(h, i) = Value(h, j)
                                            /\ \A i \in C : (\E j \in PB : Value(h, i) = Value(h, j)) => i \in PB
UnconstrainedIsPlain == Judged /\ Dim = 1 /\ Unconstrained => EB = PB
FeasibleWhenPossible == Judged /\ Dim = 1 /\ FeasibleComplete(h) # {} =>
                          /\ \A i \in EB : ~Violating(h[i])
                          /\ \E i \in EB : Feasible(h[i])
                          /\ \A i \in EB : Feasible(h[i]) =>
                                \A j \in FeasibleComplete(h) : dirs[1] * Value(h, i) <= dirs[1] * Value(h, j)
\* a strictly literal reading (no unknown-class answer while a feasible trial exists) is contained in EB
StrictReadingAdmitted == Judged /\ Dim = 1 /\ FeasibleComplete(h) # {} =>
                          {i \in FeasibleComplete(h) : ~\E j \in FeasibleComplete(h) : Beats(h, dirs[1], j, i)} \subseteq EB
\* some reply is always admissible, and an error is admissible together with a trial only in a
\* constrained study without a feasible COMPLETE trial
SomeReplyAdmissible == Judged => \/ \E i \in Numbers(h) : BestTrialOK(h, dirs, OkT(i))
                                 \/ BestTrialOK(h, dirs, ErrR("ValueError"))
                                 \/ BestTrialOK(h, dirs, ErrR("RuntimeError"))
ErrorOnlyWhenDocumented == Judged /\ Dim = 1 /\ BestTrialOK(h, dirs, ErrR("ValueError")) =>
                             C = {} \/ (Constrained(h) /\ FeasibleComplete(h) = {})
ReplyMatchesSet == Judged /\ Dim = 1 => \A i \in Numbers(h) :
                        /\ BestTrialOK(h, dirs, OkT(i)) <=> i \in EB
                        /\ StorageBestOK(h, dirs, OkT(i)) <=> i \in PB
MultiIsRuntimeError == Judged /\ Dim > 1 => /\ BestTrialOK(h, dirs, ErrR("RuntimeError"))
                                            /\ ~BestTrialOK(h, dirs, ErrR("ValueError"))
                                            /\ \A i \in Numbers(h) : ~BestTrialOK(h, dirs, OkT(i))
                                            /\ StorageBestOK(h, dirs, ErrR("RuntimeError"))
                                            /\ StorageBestOK(h, dirs, ErrR("ValueError")) <=> (C = {})

\* ---- Pareto set
ParetoWithinCandidates == Judged => PS \subseteq Candidates(h) /\ Candidates(h) \subseteq C
ParetoNonEmptyIff      == Judged => ((PS # {}) <=> (Candidates(h) # {}))
ParetoNotDominated     == Judged => \A i \in PS : ~\E j \in Candidates(h) : Dominates(L[j], L[i])
ParetoCovers           == Judged => \A i \in Candidates(h) \ PS : \E j \in PS : Dominates(L[j], L[i])
ParetoKeepsDuplicates  == Judged => \A i \in PS : \A j \in Candidates(h) : L[j] = L[i] => j \in PS
OneObjectiveFront      == Judged /\ Dim = 1 =>
                            /\ Unconstrained => PS = PB
                            /\ FeasibleComplete(h) # {} /\ Constrained(h) => PS = {i \in EB : Feasible(h[i])}

\* ---- mirror: maximising f is minimising -f
Mirror == Judged => /\ ParetoSet(NegHistory(h), FlipDirs(dirs)) = PS
                    /\ Dim = 1 => /\ EligibleBest(NegHistory(h), Neg(dirs[1])) = EB
                                  /\ PlainBest(NegHistory(h), Neg(dirs[1])) = PB
===============================================================================
