SPECIFICATION Spec
CONSTANTS Workers = {1, 2, 3} UseLock = FALSE NWaiting = 1
INVARIANT NumbersOrdinal
INVARIANT IdsUnique
INVARIANT ClaimedOnce
CHECK_DEADLOCK FALSE
