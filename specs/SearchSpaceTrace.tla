--------------------------- MODULE SearchSpaceTrace ---------------------------
(* Conformance of the real calculators with SearchSpace.  A trace is one history executed on a     *)
(* real study (optuna.create_study(); ask / enqueue_trial / suggest_* / tell / add_trial) for one  *)
(* value of include_pruned (Trace.ip = 0/1); its events are                                        *)
(*   create  st, num          trial `num` was created RUNNING (ask) or WAITING (enqueue_trial)     *)
(*   claim   t                ask() popped WAITING trial t                                          *)
(*   suggest t, name, dist    trial.suggest_*(name, <range of token dist>)                          *)
(*   finish  t, st            study.tell(trial, state=st)                                           *)
(*   add     st, params       study.add_trial(create_trial(state=st, ...))                          *)
(*   calc    inc, fun, groups, cur                                                                  *)
(*       inc    = the long-lived IntersectionSearchSpace(include_pruned).calculate(study)           *)
(*       fun    = intersection_search_space(study.get_trials(), include_pruned)                     *)
(*       groups = the long-lived _GroupDecomposedSearchSpace(include_pruned).calculate(study)       *)
(*       (inc, fun as lists of <<name, dist token>>, groups as a list of lists of names),           *)
(*       cur    = _cached_trial_number afterwards (compared only in strict traces)                  *)
(* The spec state machine replays the same history; a calc event is accepted iff inc and fun equal  *)
(* Scratch of the replayed trials, inc did not grow since the previous calc once established, and   *)
(* groups is a partition of the seen names with every eligible trial a union of groups.             *)
(* In a trace with strict = 1 (a second copy of some traces) the event must in addition coincide    *)
(* with the *model of the algorithm* (cursor value, group order): that is not a property of the     *)
(* code and never a verdict, only evidence that Scan/Split of SearchSpace transcribe the code that  *)
(* SearchSpaceMC then proves to refine the property level.                                          *)
EXTENDS SearchSpace, TraceBase

VARIABLE obs      \* inc of the previous calc event
tvars == <<vars, obs, tix, l>>

Strict == Trace.strict = 1
ToSet(s) == {s[i] : i \in 1..Len(s)}
GroupSeq(gs) == [i \in 1..Len(gs) |-> ToSet(gs[i])]

TInit == /\ TraceInitBase
         /\ trials = <<>> /\ ip = (Trace.ip = 1)
         /\ algSome = FALSE /\ algSpace = {} /\ cursor = -1 /\ groups = <<>>
         /\ result = {} /\ est = FALSE /\ ncalc = 0 /\ obs = {}

TCreate  == Consume /\ Ev.op = "create" /\ Ev.num = Len(trials) /\ Create(Ev.st) /\ UNCHANGED obs
TClaim   == Consume /\ Ev.op = "claim" /\ Claim(Ev.t) /\ UNCHANGED obs
TSuggest == Consume /\ Ev.op = "suggest" /\ Suggest(Ev.t, Ev.name, Ev.dist) /\ UNCHANGED obs
TFinish  == Consume /\ Ev.op = "finish" /\ Finish(Ev.t, Ev.st) /\ UNCHANGED obs
TAdd     == Consume /\ Ev.op = "add" /\ Ev.num = Len(trials) /\ AddTrial(Ev.st, ToSet(Ev.params)) /\ UNCHANGED obs

TCalc == /\ Consume /\ Ev.op = "calc" /\ Calculate
         /\ LET inc == ToSet(Ev.inc)
                fun == ToSet(Ev.fun)
                gs  == GroupSeq(Ev.groups)
            IN /\ inc = Scratch(trials, ip)                     \* incremental = from scratch
               /\ fun = Scratch(trials, ip)                     \* functional  = from scratch
               /\ est => inc \subseteq obs                      \* never grows once established
               /\ DisjointSeq(gs) /\ GroupsOK(ToSet(gs), trials, ip)
               /\ Strict => inc = result' /\ Ev.cur = cursor' /\ gs = groups'
               /\ obs' = inc

TNext == TCreate \/ TClaim \/ TSuggest \/ TFinish \/ TAdd \/ TCalc
TSpec == TInit /\ [][TNext]_tvars
==============================================================================
