SPECIFICATION Spec
CONSTANTS Workers = {1, 2} MaxTrials = 7 MaxRetry = 1 AtomicCAS = TRUE MaxWrites = 1
CONSTANT InitStates <- MCInit
INVARIANT FailedByAtMostOne
INVARIANT CallbackAtMostOnce
INVARIANT RetriesBounded
INVARIANT AtMostOneRetryPerFailure
INVARIANT HistoryCorrect
INVARIANT RetryCarriesContent
PROPERTY Untouched
CHECK_DEADLOCK FALSE
