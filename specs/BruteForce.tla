------------------------------ MODULE BruteForce ------------------------------
(* C14, brute-force part: an exhaustive sampler driven by a sequential optimize() loop evaluates    *)
(* every reachable parameter combination of a finite define-by-run program exactly once and then   *)
(* stops by itself -- also when trials fail / are pruned and when the run is cut into several      *)
(* optimize() calls.                                                                               *)
(*                                                                                                 *)
(* A PROGRAM is a finite decision tree, written down flat as the set of its leaf paths:            *)
(*   path = << [n |-> parameter name, v |-> index of the chosen candidate], ... >>                 *)
(* (an inner node is a proper prefix of a leaf path; the candidates of an inner node are the       *)
(* values with which leaf paths continue; the next parameter name is a function of the prefix:     *)
(* that is what "define-by-run" means for a deterministic objective).                              *)
(*                                                                                                 *)
(* Property-level machine (no sampler internals):                                                  *)
(*   Optimize(cap)  a new optimize(n_trials=cap) call on the same study (first call or a resume)   *)
(*   StartTrial     the loop starts a trial -- only while some leaf is still unvisited             *)
(*   Suggest(n, v)  the objective asks for parameter n at the current node; an exhaustive sampler  *)
(*                  answers with a candidate whose subtree still holds an unvisited leaf           *)
(*   Finish(out)    the objective ends AT A LEAF (returns / raises a caught error / is pruned):    *)
(*                  the combination has been evaluated, whatever the outcome                       *)
(*   Abort(out)     a transient failure/prune BETWEEN two suggests: no combination was evaluated   *)
(*   ReturnSelf     optimize returns because everything has been visited (stopped by itself)       *)
(*   ReturnCap      optimize returns because n_trials is used up (an interruption)                 *)
(*   Interrupt      the exception of a failed trial was not in `catch` (or Ctrl-C): optimize       *)
(*                  raises it after the trial was recorded as FAIL (an interruption)               *)
EXTENDS Integers, Sequences, FiniteSets, TLC

CONSTANT MaxAborts      \* bound on transient mid-trial failures (keeps the instance finite)

VARIABLES prog,      \* the program: set of leaf paths (never changes)
          evals,     \* leaf path -> number of finished trials that evaluated it
          running,   \* a trial is in flight
          cur,       \* path of the trial in flight (meaningful while running)
          mode,      \* "idle" (no optimize call active) | "run" | "stopped"
          left,      \* trials the active optimize call may still start
          failed,    \* no trial in flight and the most recent trial of the active call ended FAIL
          aborts     \* transient mid-trial failures so far
vars == <<prog, evals, running, cur, mode, left, failed, aborts>>

Outcomes == {"COMPLETE", "FAIL", "PRUNED"}

\* ------------------------------------------------------------------ programs
IsPrefix(p, q) == Len(p) <= Len(q) /\ \A i \in 1..Len(p) : p[i] = q[i]
Step(n, v)     == [n |-> n, v |-> v]
Ext(p, n, v)   == Append(p, Step(n, v))

UnderIn(P, p)  == {q \in P : IsPrefix(p, q)}
InnerIn(P, p)  == {q \in P : IsPrefix(p, q) /\ q # p} # {}     \* (a set test: no branching per witness in TLC)
NameIn(P, p)   == (CHOOSE q \in UnderIn(P, p) : Len(q) > Len(p))[Len(p) + 1].n
CandIn(P, p)   == {q[Len(p) + 1].v : q \in {r \in UnderIn(P, p) : Len(r) > Len(p)}}

WellFormed(P) ==
  /\ P # {}
  /\ \A p, q \in P : IsPrefix(p, q) => p = q                                  \* leaves are leaves
  /\ \A p, q \in P : \A k \in 1..Len(p) :                                     \* next name = f(prefix)
        (k <= Len(q) /\ SubSeq(p, 1, k - 1) = SubSeq(q, 1, k - 1)) => p[k].n = q[k].n
  /\ \A p \in P : \A i, j \in 1..Len(p) : i # j => p[i].n # p[j].n           \* a name once per trial

Under(p)   == UnderIn(prog, p)
Inner(p)   == InnerIn(prog, p)
IsLeaf(p)  == p \in prog
NextName(p) == NameIn(prog, p)
Cand(p)    == CandIn(prog, p)

Unvisited  == {q \in prog : evals[q] = 0}
AllVisited == \A q \in prog : evals[q] > 0

\* what an exhaustive sampler may answer at node p
Admissible(p) == LET n == NextName(p)
                 IN  {v \in Cand(p) : \E q \in prog : evals[q] = 0 /\ IsPrefix(Ext(p, n, v), q)}

\* ------------------------------------------------------------------ machine
InitFor(P) ==
  /\ prog = P
  /\ evals = [q \in P |-> 0]
  /\ running = FALSE /\ cur = <<>>
  /\ mode = "idle" /\ left = 0 /\ failed = FALSE
  /\ aborts = 0

Optimize(cap) ==
  /\ mode = "idle" /\ ~AllVisited /\ cap >= 1
  /\ mode' = "run" /\ left' = cap /\ failed' = FALSE
  /\ UNCHANGED <<prog, evals, running, cur, aborts>>

StartTrial ==
  /\ mode = "run" /\ ~running /\ left > 0
  /\ ~AllVisited                                   \* "... and then stops": no trial once all is visited
  /\ running' = TRUE /\ cur' = <<>>
  /\ left' = left - 1 /\ failed' = FALSE
  /\ UNCHANGED <<prog, evals, mode, aborts>>

Suggest(n, v) ==
  /\ running /\ Inner(cur)
  /\ n = NextName(cur)
  /\ v \in Admissible(cur)
  /\ cur' = Ext(cur, n, v)
  /\ UNCHANGED <<prog, evals, running, mode, left, failed, aborts>>

Finish(out) ==
  /\ running /\ IsLeaf(cur) /\ out \in Outcomes
  /\ evals' = [evals EXCEPT ![cur] = @ + 1]
  /\ running' = FALSE /\ cur' = <<>> /\ failed' = (out = "FAIL")
  /\ UNCHANGED <<prog, mode, left, aborts>>

Abort(out) ==
  /\ running /\ Inner(cur) /\ out \in {"FAIL", "PRUNED"}
  /\ aborts < MaxAborts
  /\ aborts' = aborts + 1
  /\ running' = FALSE /\ cur' = <<>> /\ failed' = (out = "FAIL")
  /\ UNCHANGED <<prog, evals, mode, left>>

ReturnSelf ==
  /\ mode = "run" /\ ~running /\ AllVisited
  /\ mode' = "stopped" /\ left' = 0 /\ failed' = FALSE
  /\ UNCHANGED <<prog, evals, running, cur, aborts>>

ReturnCap ==
  /\ mode = "run" /\ ~running /\ left = 0 /\ ~AllVisited
  /\ mode' = "idle" /\ left' = 0 /\ failed' = FALSE
  /\ UNCHANGED <<prog, evals, running, cur, aborts>>

Interrupt ==
  /\ mode = "run" /\ ~running /\ failed
  /\ mode' = IF AllVisited THEN "stopped" ELSE "idle"
  /\ left' = 0 /\ failed' = FALSE
  /\ UNCHANGED <<prog, evals, running, cur, aborts>>

Done == mode = "stopped" /\ UNCHANGED vars

\* ------------------------------------------------------------------ the property
NoDuplicateLeaf        == \A q \in prog : evals[q] <= 1
AllLeavesVisitedAtStop == mode = "stopped" => AllVisited
NoTrialAfterExhaustion == running => ~AllVisited
Stopped                == mode = "stopped"

\* ------------------------------------------------------------------ the design of the code (algorithm level)
\* BruteForceSampler rebuilds a tree from the set T of parameter paths of the OTHER trials (finished
\* ones only in a sequential run) every time it is asked: a node is expanded when some path runs
\* through it, a leaf when some path ends in it, otherwise unexpanded; children of an expanded node are
\* all candidates of its distribution.  sample_independent restricts T to the trials that agree with
\* the parameters of the asking trial, picks a child with an unexpanded node below it (any candidate
\* if there is none); after_trial stops the study when no unexpanded node is left.
ProperPrefixes(T) == UNION {{SubSeq(q, 1, k) : k \in 0..(Len(q) - 1)} : q \in T}
TouchedBy(T, u)   == \E q \in T : IsPrefix(u, q)
AlgBroken(T)      == \E p, q \in T : IsPrefix(p, q) /\ p # q      \* set_leaf/expand on a node of the other kind: ValueError
AlgUnexpandedBelow(T, root) ==      \* root is being expanded (sample_independent) or T-expanded
  LET Tc  == {q \in T : IsPrefix(root, q)}
      exp == {root} \cup {p \in ProperPrefixes(Tc) : IsPrefix(root, p)}
  IN  {u \in UNION {{Ext(p, NextName(p), v) : v \in Cand(p)} : p \in {x \in exp : Inner(x)}} : ~TouchedBy(Tc, u)}
AlgChoices(T, p) ==
  LET U == AlgUnexpandedBelow(T, p)
  IN  IF U = {} THEN Cand(p)
      ELSE {v \in Cand(p) : \E u \in U : IsPrefix(Ext(p, NextName(p), v), u)}
AlgStops(T) ==   \* T includes the trial that is finishing
  IF T = {} THEN FALSE ELSE IF <<>> \in T THEN TRUE ELSE AlgUnexpandedBelow(T, <<>>) = {}
===============================================================================
