SPECIFICATION TSpec
CONSTANTS Names = {}  Dists = {}  MaxTrials = 1000  MaxCalc = 100000  IPs = {TRUE, FALSE}  Variant = "ok"
INVARIANT Report
CHECK_DEADLOCK FALSE
