SPECIFICATION Spec
INVARIANT Report
CHECK_DEADLOCK FALSE
