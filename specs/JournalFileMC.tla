------------------------------ MODULE JournalFileMC ------------------------------
(* Bounded instances of JournalFile (constants in the .cfg files):                                  *)
(*   _c07q / _c07t : concurrent appenders and readers, no crash (C07)                               *)
(*   _c05q / _c05t : one crash anywhere inside an append + grace-period takeover + survivors (C05)  *)
(*   _k4           : same, expecting K4Unreachable to FAIL (the recorded finding is reachable)      *)
(*   _f5           : the pre-repair design (no DropTail), expecting NoBadObservation to FAIL        *)
EXTENDS JournalFile
==================================================================================
