#!/bin/bash
# Offline setup: parse every specification with SANY and smoke-test the harness imports.
set -e
cd "$(dirname "$0")/specs"
for f in *.tla; do
  java -cp /opt/veriftools/tla/tla2tools.jar:/opt/veriftools/tla/CommunityModules-deps.jar tla2sany.SANY "$f" > /tmp/sany.$$.out 2>&1 || { cat /tmp/sany.$$.out; rm -f /tmp/sany.$$.out; exit 1; }
done
rm -f /tmp/sany.$$.out
cd ..
PYTHONPATH=/verif /venv/bin/python -c "import harness.cli, harness.tlc, harness.tlaval, harness.common; import optuna; print('setup ok', optuna.__version__)"
