#!/usr/bin/env python3
"""Regenerates /verif/MANIFEST.json from the table below (single source of truth for the interface)."""
import json
import os

ROOT = os.path.dirname(os.path.dirname(os.path.abspath(__file__)))

NOT_BUILT = "check not built yet (build in progress, see DESIGN.md section 8); not claimed"

NOT_APPLICABLE = {
    "C18": "numerical accuracy of pure floating-point kernels against SciPy: TLA+/TLC has neither reals nor floats and "
           "there is no state or transition to model; a lattice transcription would test a different function "
           "(DESIGN.md section 4, C18)",
}

CHECKS = {
    "C01": dict(
        text="The documented BaseStorage contract is a TLA+ specification (Storage.tla: every call as a pure operator, "
             "invariants NumbersAreOrdinal/TrialsPartition/NamesUnique, action properties FinishedIsFrozen, RunningOnce, "
             "OverwriteByKey, TemplateFieldForField, DeletedIsGone, NeverReissued) model-checked exhaustively on a bounded "
             "instance; TLC-simulated and seeded random call histories are executed on nine real backend configurations "
             "(in-memory, SQLite RDB, cached RDB, journal file with both locks, journal fakeredis, gRPC proxy over "
             "in-memory/RDB/journal) and TLC validates every recorded trace: each reply, each error class and the full "
             "read-back state after every call must be a step of the contract (histories include interleaved multi-study use, "
             "repeated overwrites with non-finite values, templates edited by the caller after the call, the WAITING-filtered listing repeated around claims, and point reads before "
             "bulk reads). In addition every storage call that optuna's OWN test files make (test_storages, test_cached_storage, "
             "test_trial; thorough: study/journal/pruner/sampler tests) is recorded by a pytest plugin outside the repository, "
             "grouped per backend state and validated by TLC against the same specification (about 440 traces / 6800 calls "
             "in quick).",
        note="Trusted: TLC, the projection of storage objects to tokens (bit-exact float pool, JSON-normalised attrs, "
             "creation-order ids with raw-id freshness decided in the spec). RDB = SQLite, Redis = fakeredis. Calls the "
             "contract leaves undefined (D2, D10, mixed incompatible templates) are not generated; attribute values are not "
             "edited by the caller after set_*_attr (D16). Recorded test traces are cut (never judged) at overlapping calls, "
             "foreign exceptions, copied objects, re-issued SQLite ids; gRPC-parametrised tests are not recorded. Known "
             "findings K2, K6.",
        technique="TLA+ contract spec model-checked with TLC; TLC-generated and random histories replayed on 9 backends; "
                  "traces of the generated histories and of optuna's own test-suite validated by TLC (trace validation)",
        ref="DESIGN.md section 4 C01, section 3.1, section 9.6",
    ),
    "C02": dict(
        text="StudyLoop.tla: state machine of one optimize() call (Ask/Run/Tell/Callback per worker, stop flag, catch, "
             "callback log, escaping exception) over abstract outcome kinds (22 return kinds x 4 raise kinds x stop x "
             "report), with NoRunningAtReturn, CompleteIffFeasible, ValuesAreTheFloats, FailHasNoValues, "
             "UncaughtPropagatesAfterFail, CallbacksExactlyOnce, ExactlyNTrials and TellNeverAltersFinished model-checked "
             "for n_jobs 1 and 2. About 2800 real runs per check (every single-trial scenario, TLC -simulate and random "
             "multi-trial scenarios, n_jobs=2, the tell argument table on trials in every state; in-memory, SQLite, "
             "journal) are recorded and validated by TLC against the spec.",
        note="Trusted: TLC, the table mapping abstract outcome kinds to concrete Python values, the reading of "
             "'float-convertible' as 'float(v) returns' and of a Sequence as the per-objective list. The documented tell "
             "argument table is matched at algorithm level only (drift, not violation).",
        technique="TLA+ state-machine spec model-checked with TLC; scripted objectives run through the real "
                  "optimize/ask/tell; recorded runs validated by TLC (trace validation)",
        ref="DESIGN.md section 4 C02, section 3.7",
    ),
    "C03": dict(
        text="LinStorage.tla states linearizability of the Storage contract directly: a history of call starts/ends of "
             "several workers plus the final read-back state is accepted iff TLC finds one linearization point per call "
             "(internal Lin action) under which the contract yields exactly the recorded replies and final state. Real "
             "threads run under a deterministic scheduler with preemption at every source line of the storage layer "
             "(in-memory storage; one JournalStorage shared by threads; one JournalStorage per worker on one journal; one "
             "_CachedStorage over SQLite shared by threads; socket-free gRPC proxies whose client cache, servicer and backend "
             "all run on the scheduled thread), inside copy.deepcopy for snapshot readers against two-write programs, and "
             "several SQLite connections are interleaved per SQL statement/commit (lock waits become the reply Busy = no "
             "effect): every ordered pair of a 21-call alphabet (incl. delete_study) with a single preemption at each "
             "(quick: sampled) point, random 2-3 worker schedules, and real forked OS processes free-running on one journal "
             "file / SQLite file ordered only by end(a) < start(b). An algorithm-level lock model (InMemLock) is checked with "
             "its lock-free variant failing. Reader/writer/reader double preemptions for every kind with a client cache, "
             "'finish the trial another worker is creating' programs, and closing reads (best trial, WAITING filter, full "
             "listing through every storage object) are part of the histories. About 10000 histories per quick run, each "
             "validated by TLC.",
        note="Trusted: TLC, line-level (not bytecode-level) preemption, the GIL's atomicity of C-level container "
             "operations, the creation-order id normalisation (ids must be handed out in linearization order). The file "
             "backend's own concurrency is C07. delete_study is not in the SQLite alphabet (id reuse, K2, breaks the id "
             "numbering). Known findings K1 (SQLite compare-and-set; two overlapping set_trial_state_values on one trial), "
             "K13 (torn multi-statement reads; only if the history is linearizable without the overlapping reads) and K14 (a "
             "trial write accepted while another connection finishes that trial) are matched by shape, on SQLite kinds only.",
        technique="linearizability as a TLA+ trace specification, search over linearization points by TLC; real threads "
                  "under a deterministic line-level / SQL-statement-level scheduler",
        ref="DESIGN.md section 4 C03, section 3.2",
    ),
    "C04": dict(
        text="WaitQueue.tla models Study.ask as the code does it - list the WAITING trials (in-memory: from a cursor), try to "
             "claim them one by one with the storage's compare-and-set, else create a fresh trial - and TLC checks "
             "ClaimedAtMostOnce, NoSkipAtList, CreateOnlyIfNoneLeft, the cursor invariant and termination under fairness for "
             "2-3 workers; the SQLite variant (read and write of the compare-and-set separate) and a wrong cursor must fail. "
             "Real executions: enqueue_trial / add_trial(WAITING) / ask / suggest / tell programs on nine backends, and 2-3 "
             "threads asking (one also enqueueing) concurrently under the line-level scheduler (in-memory, journal) and the "
             "SQL-statement scheduler (SQLite), plus an asker preempted once at every yield point while another thread enqueues; "
             "the queue is then drained. TLC validates every execution against "
             "WaitQueueTrace: no trial handed out twice, fixed parameter values verbatim, number and user attributes kept, "
             "nothing left in the queue.",
        note="Trusted: TLC, the unique tag attribute that identifies a queued trial, line-level preemption. ask() raising "
             "UpdateFinishedTrialError when the listed trial was claimed and finished meanwhile is admitted (D15). Known "
             "finding K1 (SQLite double claim) matched by shape on the SQLite scheduler only.",
        technique="TLA+ algorithm spec model-checked with TLC (safety, liveness, negative variants); real sequential and "
                  "scheduled concurrent executions validated by TLC (trace validation)",
        ref="DESIGN.md section 4 C04, section 3.6",
    ),
    "C05": dict(
        text="Journal file: JournalFile.tla models append_logs/read_logs and both lock classes one system call per "
             "action, with Crash enabled at every point of an append and the grace-period takeover; TLC checks "
             "MutualExclusion, LogIntact, AckedSurvive/InOrder and sound reads exhaustively on bounded instances (and that "
             "the pre-repair design and the recorded finding K4 are reachable). The REAL code runs over a syscall-shim "
             "file system: TLC -simulate crash behaviours are replayed step by step (call kind and state compared), "
             "random crash schedules and one execution per byte offset of a torn record (small records: every offset; records "
             "of 4-9 KiB: around the block boundaries) are recorded, a live worker that never finishes is an event of its own, and "
             "TLC validates "
             "every execution against the property-level trace spec (acknowledged appends visible to survivors and fresh "
             "readers, torn record all-or-nothing, readers never fail).",
        note="Trusted: TLC, the shim's file-system semantics (atomic create/rename, chunked append), process death = no "
             "further step. Grace period assumed longer than live critical sections. SQLite: a connection is killed at "
             "every SQL statement / commit boundary of every storage call (connection closed as the OS would), a survivor "
             "goes on, and LinStorage requires the cut call to be wholly applied or wholly absent; the first opener of a new "
             "SQLite file also dies before each of its 52 statements and a second opener must find a usable storage. Known "
             "finding K4 (takeover race) is checked-modulo and matched only when the waiter removes a lock file other than the "
             "one it last looked at.",
        technique="TLA+ syscall-level spec model-checked with TLC; TLC crash behaviours replayed into the real code over "
                  "a syscall shim; recorded executions validated by TLC (trace validation)",
        ref="DESIGN.md section 4 C05, section 3.3",
    ),
    "C06": dict(
        text="JournalReplay.tla defines the journal state as Fold(log prefix) over the Storage contract's operators and "
             "models apply_logs (cursor advanced per record, issuer-only raise aborting the batch), snapshots and re-opens; "
             "TLC checks StateIsFold, Converge, IssuerOnlyErrors, CursorMonotone exhaustively for 2 workers and all "
             "rejected kinds, and that a wrong cursor rule violates StateIsFold. Real histories: 2-3 JournalStorage workers "
             "on one JSON-serialising journal with snapshots (interval 2), raw replay objects driven with arbitrary batch "
             "splits under a worker's identity, snapshot restores, fresh replays and forked copies; two threads sharing one "
             "JournalStorage under the line-level scheduler (double preemptions) with every snapshot ever saved restored; "
             "after every step the object's full projection must equal Project(Fold(first k records)), errors only at the "
             "issuer with the contract's class.",
        note="Trusted: TLC, the projection shared with C01, the list backend standing for file/Redis (those are covered by "
             "C01/C05/C07). Append+sync of one call is atomic in the multi-worker family (the threaded family preempts inside "
             "it); fork is emulated (same object, own replay state, another os.getpid()).",
        technique="TLA+ fold/refinement spec model-checked with TLC; multi-worker replay histories of the real code "
                  "validated by TLC (trace validation)",
        ref="DESIGN.md section 4 C06, section 3.4",
    ),
    "C07": dict(
        text="Same specification pair without crashes: every interleaving of 2 appenders and 1-2 readers at system-call "
             "granularity with writes in 2 pieces is model-checked (mutual exclusion, intact totally ordered log, sound "
             "reads, exact offset cache); TLC behaviours are replayed step by step into the real JournalFileBackend with "
             "both lock classes (control-flow and state conformance), larger random schedules (3 writers x 3 appends, "
             "multi-record appends, random byte-level chunking, warm caches) are recorded, and every execution is validated "
             "by TLC: each read returns exactly records k..m covering all appends finished before it began, the cached "
             "offsets are exact, at most one live lock holder.",
        note="Trusted: TLC, the shim's file-system semantics; preemption is at system calls of the file backend (the "
             "only shared state is the file system), not at bytecodes.",
        technique="TLA+ syscall-level spec model-checked with TLC; TLC behaviours replayed into the real code; recorded "
                  "executions validated by TLC (trace validation)",
        ref="DESIGN.md section 4 C07, section 3.3",
    ),
    "C08": dict(
        text="CacheSync.tla models the watermark + unfinished-set cache of _CachedStorage / GrpcClientCache one critical "
             "section per action and TLC checks that every read equals the backend for all histories of 2 clients, 2 studies "
             "sharing the id space, trials finishing out of creation order and finished templates (the pre-repair "
             "create_new_trial must fail). Real histories: three clients of ONE database (two caching or proxying, one raw; "
             "SQLite file, or one gRPC server over in-memory / journal / SQLite) issue interleaved calls; after every call "
             "TLC validates the client's reply and the database state read by an uncached observer against the Storage "
             "contract on the single shared state - a cache is correct iff it is invisible.",
        note="Trusted: TLC, the projection shared with C01. Clients interleave at call granularity (threads inside one "
             "client: C03). Families: random histories, point reads (9 kinds) before bulk reads, a finished template before "
             "the first sync, a foreign delete followed by a local create. Known findings K2 (SQLite id reuse; explains only "
             "stale answers of clients OTHER than the one that re-created the id) and K5 (name/directions cached for ever) "
             "matched by shape.",
        technique="TLA+ cache-algorithm spec model-checked with TLC; multi-client histories on real cached/proxied "
                  "storages validated by TLC against the storage contract (trace validation)",
        ref="DESIGN.md section 4 C08, section 3.5",
    ),
    "C09": dict(
        text="Functional.tla (thin, as announced): what a sampler or pruner answers is a function of (scenario, request, "
             "abstract history) where the history is built BY THE SPEC from the consumed events and contains trial numbers, "
             "parameters, reports, states and values but never ids; FunctionalMC checks the memo lemmas. 46 seeded "
             "define-by-run programs (conditional branch, reports + should_prune, caught failures) x all 13 built-in "
             "sampler configurations x 9 pruners are each run on several configurations (in-memory twice, with another study "
             "and split into 2-3 optimize calls, journal, SQLite, cached SQLite, gRPC over in-memory/journal/SQLite, and in fresh "
             "interpreters with other PYTHONHASHSEED values); all "
             "runs of a scenario form one trace and TLC rejects the first answer that contradicts an earlier run; "
             "copy_study to other backends must reproduce every trial field.",
        note="Thin: no sampler mathematics is modelled; weight is on the differential runs judged by TLC. GP kept because "
             "two identical runs agree. Known findings K9 (NSGA parent cache uses ids as positions) and K10 (gRPC proxy "
             "returns params in proto-map order) are matched by exact shape.",
        technique="TLA+ functional-dependence spec model-checked with TLC; differential runs across backends validated "
                  "by TLC (trace validation)",
        ref="DESIGN.md section 4 C09, section 3.7",
    ),
    "C10": dict(
        text="Suggest.tla: per trial the five-way decision of Trial._suggest (reuse / fixed / single-point / relative if "
             "contained / independent) with the sampler as a nondeterministic choice constrained to the domain; "
             "ValueInDomain, SameNameSameValue, FixedWins, StoredEqualsReturned model-checked (the out-of-range fixed value "
             "D7 must be reachable). About 1 450 real trials per run: lattice and extreme distributions (steps not dividing "
             "the range, single points, log ranges near 1, huge/tiny ranges) x 10 sampler configurations x prior histories "
             "incl. the same name under a wider/misaligned range, relative and independent mode; each suggest call is "
             "repeated, the value is classified with exact rational arithmetic, and the stored value is re-read (in-memory, "
             "SQLite and journal through a fresh storage object); TLC validates each trial against SuggestTrace.",
        note="Thin spec (as announced): the sampler's arithmetic is observed, not modelled; log-scaled floats are decided "
             "within 4 doubles. CmaEs is not installed; NSGA in-memory only (K9). Vacuity guards: all seven branches and a "
             "relative sample per relative-capable sampler must occur.",
        technique="TLA+ protocol spec model-checked with TLC; real suggest calls classified exactly and validated by TLC "
                  "(trace validation)",
        ref="DESIGN.md section 4 C10, section 3.7",
    ),
    "C11": dict(
        text="Domain.tla: distributions on a decimal lattice as scaled integers with exact AdjustHigh, Grid, Contains, "
             "Single, Compatible (theorems model-checked). The 500-input lattice at three decimal scales (count "
             "cross-checked with TLC) plus 28 extreme shapes: JSON round trip and its second iterate, adjusted high, single, "
             "containment of grid values and near misses before/after a round trip, internal/external representation, "
             "compatibility on all pairs, and _SearchSpaceTransform round trips and box points under all eight flag "
             "combinations; about 61 000 events per run, each judged by TLC (DomainTrace) on exact tokens.",
        note="Thin for log-scaled floats (within 4 doubles); stepped floats are on the grid within 1e-8*step, as "
             "FloatDistribution._contains documents; D14 (exactly-high maps to the double below high) admitted. The extra "
             "shapes include 1e5-point stepped grids and low ends with more decimals than the step.",
        technique="TLA+ exact-arithmetic oracle model-checked with TLC; real distribution/transform answers validated by "
                  "TLC (trace validation)",
        ref="DESIGN.md section 4 C11, section 3.7",
    ),
    "C12": dict(
        text="Best.tla: EligibleBest(history, direction) with the feasibility classes, ParetoSet via Pareto.tla; 17 oracle "
             "theorems model-checked over all histories of the bounded instances. Every history of the instances (all five "
             "states, duplicate and infinite values, 1-3 objectives with every direction vector, missing/violated "
             "constraints; count cross-checked with the spec's state count) plus random larger ones is built on real "
             "backends (in-memory exhaustively, behind 0-2 trials of an unrelated study; journal, SQLite, cached, gRPC sampled) in "
             "several arrival orders, also on one long-lived Study object while trials arrive through a second one, and TLC "
             "judges best_trial, best_value, best_trials and storage.get_best_trial.",
        note="Trusted: TLC, small-integer value tokens. Which of several equal trials is returned is open; D8 "
             "(constraint-less trials), D11 (two documented errors at once).",
        technique="TLA+ oracle model-checked with TLC; answers of the real study API validated by TLC (trace validation)",
        ref="DESIGN.md section 4 C12, section 3.8",
    ),
    "C13": dict(
        text="Mirror.tla: exact integer decision models (percentile/median, threshold with mirrored bounds, patient, "
             "successive-halving rung, TPE below/above split incl. the pruned-trial score, best trial, Pareto set and rank "
             "for every flipped subset) with the theorem Decide(dir, v) = Decide(flip(dir), -v) checked exhaustively by TLC "
             "(a model with the percentile side not flipped must fail). 126 scenarios per run (every single-objective "
             "sampler x pruner pair incl. GP, 24 two-objective scenarios with all flip subsets): mirrored real runs with "
             "exactly negatable pairwise-distinct values (dyadic; small integers where a value regularly equals the "
             "interpolated percentile; multiples of 0.1 with min_delta 0.1-0.3, where additions round; Wilcoxon instance-style programs) form one trace with sign-normalised keys "
             "(Functional.tla); every "
             "suggested value, should_prune answer, final state and best trial(s) must agree.",
        note="Thin for the sampler mathematics (covered by functional agreement of the mirrored runs). Known findings K11 "
             "(NSGA-III niching ignores direction) and K12 (NSGA-II crowding ties follow the raw last objective) matched by "
             "exact shape; negative control (tie order only) silent.",
        technique="TLA+ mirror theorem model-checked with TLC; mirrored real runs validated by TLC (trace validation)",
        ref="DESIGN.md section 4 C13, section 3.8",
    ),
    "C14": dict(
        text="BruteForce.tla / Grid.tla: property-level machines over a program given as its set of leaf paths "
             "(Optimize/StartTrial/Suggest/Finish/Abort/Return), with NoDuplicateLeaf, AllLeavesVisitedAtStop and "
             "termination (liveness) model-checked for all trees of depth<=3 x branching<=2 (and depth 2 x branching 3), all "
             "failure/prune patterns and all splits of the run; algorithm-level models of the _TreeNode bookkeeping and of the "
             "grid_id / after_trial stop rule are checked against them (the two recorded defects are reachable there). About "
             "2800 scenarios per run (all 183 depth-3 tree shapes with random parameter kinds, random larger trees, grids, "
             "1-3 optimize calls, same/fresh sampler, three storages) are executed with the real samplers and every recorded "
             "run is validated by TLC: each evaluated combination is a leaf, none twice, optimize stopped by itself exactly "
             "when everything was visited.",
        note="Trusted: TLC, the scripted objective that turns a tree into suggest calls. Mid-trial failures (between two "
             "suggests) and resume-with-another-seed are separate families with known findings K3, K3b, K8. NaN and None occur "
             "among categorical choices (grids and trees), a quarter of the brute-force runs start next to a RUNNING trial "
             "without parameters left by a dead worker, 30% of the grid runs start in a study that already holds the trials of "
             "another grid (same value lists, other names).",
        technique="TLA+ property- and algorithm-level specs model-checked with TLC (safety + liveness); real sampler runs "
                  "validated by TLC (trace validation)",
        ref="DESIGN.md section 4 C14, section 3.8",
    ),
    "C15": dict(
        text="TLC decides every answer of the real kernels: hypervolume = number of dominated lattice cells, rank = "
             "peeling (plain/constrained, n_below contract), HSSP answer within (1-1/e) of the exhaustive best subset. "
             "Inputs: all sequences of <=2-3 points x all weakly dominated reference points of three lattice instances "
             "(count cross-checked against the spec's own state count) plus seeded random sets in 1-5 dimensions, plus "
             "two-objective staircase fronts with near-duplicates on integer coordinates up to 4000 judged by a second, exact "
             "2-D sweep oracle (checked by TLC to equal the cell count on the lattice); the oracle's own theorems (monotone, "
             "submodular, greedy meets the bound) are model-checked first.",
        note="Trusted: TLC, the JSON projection of numpy arrays to integers (sentinels for +-inf), exactness of float "
             "arithmetic on small integers. Degenerate 0*inf volumes admit both conventions (D12).",
        technique="TLA+ oracle (Pareto.tla) model-checked with TLC; real-kernel answers validated as traces by TLC",
        ref="DESIGN.md section 4 C15, section 3.8",
    ),
    "C16": dict(
        text="Pruners.tla: the safety envelope (no prune before warm-up, before the start-up trials, between checks, inside "
             "the patience window, before the first rung; a strictly-best-everywhere trial is never pruned by "
             "median/percentile/SHA/Hyperband without bootstrap; Threshold exact; Nop never) recomputed by the spec from the "
             "consumed events, plus exact integer algorithm models of the pruners checked by TLC to stay inside the envelope. "
             "About 2900 studies per run are PLAYED through the real API (ask/report/should_prune/tell interleaved over "
             "several RUNNING trials, both directions, NaN, gaps; in-memory, id-offset and SQLite storages) from TLC "
             "-simulate behaviours and a seeded generator; every should_prune decision is validated by TLC; the Hyperband "
             "bracket is checked to be a function of (study name, trial number) by a memo action.",
        note="Trusted: TLC, small-integer value tokens. Start-up trials are counted as all finished trials (docstring); "
             "n_min_trials is not part of the property; negative controls (lenient gates, tie handling) stay silent. Threshold "
             "studies report +-inf and use 0 as a bound; brackets are also observed with ONE pruner object serving studies of "
             "different storages.",
        technique="TLA+ envelope spec + algorithm models model-checked with TLC; played studies validated by TLC "
                  "(trace validation)",
        ref="DESIGN.md section 4 C16, section 3.8",
    ),
    "C17": dict(
        text="SearchSpace.tla: trials created/claimed/suggested/finished in any order with Calculate as observation point; "
             "property level Scratch(trials, include_pruned), NeverGrows and the group-partition properties; algorithm level "
             "the cursor algorithm of IntersectionSearchSpace and the group splitting, checked by TLC to refine the property "
             "level for all histories of 3 trials x 2 names x 2 distributions (three wrong variants must fail). 2800 real "
             "ask/suggest/tell histories per run (TLC random walks + seeded generator, enqueued trials, out-of-order "
             "finishes) with long-lived calculators; every Calculate result validated by TLC.",
        note="Trusted: TLC, the projection of distributions to tokens. RUNNING-created-while-WAITING-exists is reproduced "
             "through the storage API. Cursor value/group order agreement is informational (drift). The categorical "
             "distribution contains NaN (a new object every time it is built).",
        technique="TLA+ refinement (cursor algorithm vs from-scratch) model-checked with TLC; real calculator results "
                  "validated by TLC (trace validation)",
        ref="DESIGN.md section 4 C17, section 3.8",
    ),
    "C19": dict(
        text="Heartbeat.tla models the sweep as the code does it (stale query, compare-and-set FAIL per listed trial, "
             "callbacks for the trials this worker failed, retry chains through RetryFailedTrialCallback, crash of a sweeper "
             "anywhere) and TLC checks FailedByAtMostOne, CallbackAtMostOnce, AtMostOneRetryPerFailure, RetriesBounded, "
             "HistoryCorrect and Untouched for 2 workers over every heartbeat/state pattern; the SQLite variant must fail "
             "(K1); HeartbeatClock.tla models the database clock, the heartbeat thread and older-than-grace (a worker beating in "
             "time is never failed; the >= variant must fail). Real executions on RDBStorage(SQLite) with heartbeats: trials in every state/heartbeat pattern "
             "(heartbeat rows written directly, no sleeping), 1-2 workers sweeping in turn through fail_stale_trials and "
             "through optimize while queued retries are taken and die again, and two workers sweeping concurrently "
             "interleaved per SQL statement with one possibly dying mid-sweep (its connection closed, as the OS would); "
             "a family with the database clock frozen by the harness puts heartbeats exactly grace-1, grace and grace+1 "
             "seconds before the sweep (older-than-grace is decided by the trace specification from the logged age); "
             "TLC validates every execution against HeartbeatTrace.",
        note="Trusted: TLC, the instrumentation of set_trial_state_values/the callback on the storage object (outside the "
             "repository). RDB = SQLite. Stale heartbeat rows are written by SQL, fresh ones by the real record_heartbeat "
             "(insert and update path) under time zones other than UTC; every second execution deletes a study with heartbeats "
             "first; frozen clock = CURRENT_TIMESTAMP replaced by a literal in the statement text (one-second resolution); a zombie worker writes to the stale trial while the sweeper is preempted. Known finding K1 (double FAIL "
             "across connections) matched by shape on the concurrent family only.",
        technique="TLA+ algorithm spec model-checked with TLC (incl. a failing SQLite variant); real sweeps, sequential "
                  "and scheduled per SQL statement, validated by TLC (trace validation)",
        ref="DESIGN.md section 4 C19, section 3.6",
    ),
    "C20": dict(
        text="Handles.tla extends the Storage contract with handles (abstract value at read time) and the frame property "
             "HandlesNeverChange, model-checked on a bounded instance. The real objects are held by the harness: 22 getters "
             "(storage and Study level, with/without deepcopy, live Trial views, tell/callback results) x 25 setters, "
             "506 getter-setter pairs on in-memory and journal, 465 on cached RDB, 100 on each other backend; after every "
             "later write each held object is re-projected and TLC requires it to equal its value at read time, and "
             "modifications of deep-copied results must not show in later reads.",
        note="Trusted: TLC, the projection shared with C01. Single-threaded histories (the two-thread variant is not "
             "built). Replies are C01's subject: a diverging reply ends the judged part of a trace.",
        technique="TLA+ frame-property spec model-checked with TLC; held real objects re-projected after every write and "
                  "validated by TLC (trace validation)",
        ref="DESIGN.md section 4 C20",
    ),
}


def main():
    props = [json.loads(l) for l in open(os.path.join(ROOT, "properties.jsonl"))]
    checks = []
    na = []
    for p in props:
        pid = p["id"]
        if pid in CHECKS:
            c = CHECKS[pid]
            checks.append({
                "property_id": pid,
                "quick_cmd": f"./check {pid} quick",
                "thorough_cmd": f"./check {pid} thorough",
                "evidence_file": f"/verif/evidence/{pid}.json",
                "replay_cmd_template": f"./check {pid} --replay {{path}}",
                "engine": "tlc",
                "level_claimed": {"category": "model_checking", "text": c["text"], "design_ref": c["ref"]},
                "level_note": c["note"],
                "technique": c["technique"],
            })
        else:
            na.append({"property_id": pid, "reason": NOT_APPLICABLE.get(pid, NOT_BUILT)})
    m = {
        "version": 1,
        "setup_cmd": "cd /verif && ./setup.sh",
        "hooks": {
            "guard": "OPTUNA_VERIF",
            "enable": "no in-tree hook is needed: the checks observe optuna through its public API and interpose module "
                      "globals, SQLAlchemy engine events and sys.settrace from outside; OPTUNA_VERIF=1 is reserved for "
                      "add-only hooks should one become necessary",
            "baseline_off_cmd": "cd /repo && /venv/bin/python -m pytest -ra -q -p no:cacheprovider --timeout=900 "
                                "--continue-on-collection-errors",
            "source_commits": [],
            "add_only": True,
        },
        "engines": [{
            "name": "tlc",
            "path": "/verif/harness/tlc.py",
            "serves_properties": sorted(CHECKS),
            "kind_free_text": "TLC 1.8 explicit-state model checker: exhaustive instances of specs/*MC.tla, -simulate "
                              "for behaviours replayed into the real code, batched trace validation (specs/*Trace.tla) "
                              "of executions recorded from the real code",
        }],
        "checks": checks,
        "notes": "See DESIGN.md. ./check <ID> quick|thorough [--replay path]; exit 0 held / 1 VIOLATION / 2 machinery "
                 "failure (never a verdict). KNOWN_FINDINGS.json lists recorded genuine defects.",
        "not_applicable": na,
    }
    with open(os.path.join(ROOT, "MANIFEST.json"), "w") as f:
        json.dump(m, f, indent=1)
        f.write("\n")
    print(f"MANIFEST.json: {len(checks)} checks, {len(na)} not claimed")


if __name__ == "__main__":
    main()
