#!/bin/bash
# usage: tools/allseeds.sh "<seeds>" [ids...]   -> runs the quick check of every registered property for each seed (no evidence rewrite)
cd "$(dirname "$0")/.."
seeds=${1:-"1 2"}; shift
ids=${@:-$(python3 -c "import json;print(' '.join(c['property_id'] for c in json.load(open('MANIFEST.json'))['checks']))")}
for s in $seeds; do for id in $ids; do
  out=$(VERIF_SEED=$s VERIF_NO_EVIDENCE=1 nice -n 5 ./check $id quick 2>&1); rc=$?
  echo "seed=$s $id exit=$rc $(echo "$out" | grep -E 'OK tier|VIOLATION|MACHINERY' | head -2 | cut -c1-160 | tr '\n' ' ')"
done; done
