#!/bin/bash
# usage: tools/mkmutant.sh <name> <file-relative-to-repo> <python-expression-old> <new>   (literal string replace, first occurrence)
# Writes /verif/mutants/<name>.patch (apply with: git -C /repo apply, or patch -p1).
set -e
name=$1; f=$2; old=$3; new=$4
d=$(mktemp -d /var/tmp/mk-XXXXXX)
mkdir -p "$d/a/$(dirname "$f")" "$d/b/$(dirname "$f")"
git -C /repo show "HEAD:$f" > "$d/a/$f"
OLD="$old" NEW="$new" python3 - "$d/a/$f" "$d/b/$f" <<'PY'
import os,sys
s=open(sys.argv[1]).read()
old=os.environ["OLD"]; new=os.environ["NEW"]
assert old in s, "pattern not found"
open(sys.argv[2],"w").write(s.replace(old,new,1))
PY
(cd "$d" && diff -u "a/$f" "b/$f" > "/verif/mutants/$name.patch" || true)
rm -rf "$d"
echo "wrote mutants/$name.patch"
