#!/venv/bin/python
"""usage: tools/suite_only.py <patch>...   For each patch: scratch export of /repo HEAD + patch, record the quick test files with the
recorder, validate the traces against StorageTrace alone.  Prints one line per patch (how many traces were rejected).  A tool for
measuring what the recorded-suite family catches on its own; not a registered check."""
import os, shutil, subprocess, sys, tempfile
sys.path.insert(0, "/verif")
os.environ["VERIF_NO_EVIDENCE"] = "1"
for patch in sys.argv[1:]:
    d = tempfile.mkdtemp(prefix="suiteonly-", dir="/var/tmp")
    try:
        subprocess.run(f"git -C /repo archive HEAD | tar -x -C {d}", shell=True, check=True)
        if subprocess.run(f"cd {d} && patch -p1 -s < {os.path.abspath(patch)}", shell=True).returncode:
            print("PATCH-FAILED", patch); continue
        code = f'''
import sys, os
sys.path.insert(0, "/verif"); os.environ["VERIF_REPO"] = "{d}"
from harness import suite_traces as stt, tlc, common
out = "{d}/_suite"
p = stt.start(stt.QUICK_FILES, out, repo="{d}", workers=6); rc, tail = stt.finish(p)
tr, cuts = stt.build(stt.load(out))
for i, t in enumerate(tr): t["tid"] = i + 1
v = tlc.validate("StorageTrace", "StorageTrace", [{{"tid": t["tid"], "ev": t["ev"]}} for t in tr], shards=8, timeout=1200)
first = ""
if v.rejected:
    tid = sorted(v.rejected)[0]; t = tr[tid-1]; i = v.rejected[tid]["reached"]
    first = t["config"] + " " + (t["ev"][i-1]["a"] + " in " + t["ev"][i-1]["test"] if 1 <= i <= len(t["ev"]) else "?")
print("RESULT pytest:", tail[:60], "| traces", len(tr), "rejected", len(v.rejected), first)
tlc.cleanup()
'''
        r = subprocess.run(["/venv/bin/python", "-c", code], cwd="/verif", env=dict(os.environ, PYTHONPATH="/verif", PYTHONHASHSEED="0"), stdout=subprocess.PIPE, stderr=subprocess.STDOUT, text=True)
        line = [l for l in r.stdout.splitlines() if l.startswith("RESULT")]
        print(os.path.basename(os.path.dirname(patch)) + "/" + os.path.basename(patch), line[0] if line else "FAILED: " + r.stdout[-300:].replace("\n", " "))
        sys.stdout.flush()
    finally:
        shutil.rmtree(d, ignore_errors=True)
