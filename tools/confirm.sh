#!/bin/bash
# usage: tools/confirm.sh <ID>   -> runs the quick check on /repo, then every mutants/<ID>_*.patch; log in /var/tmp/confirm_<ID>.log
id=$1
cd "$(dirname "$0")/.."
{
echo "== clean run"; ./check $id quick 2>&1 | grep -E "OK tier|VIOLATION|KNOWN-FINDING|MACHINERY" | cut -c1-200
for m in mutants/${id}_*.patch; do tools/mutant.sh $m $id 2>&1 | tail -1; done
echo "== done"
} > /var/tmp/confirm_$id.log 2>&1
