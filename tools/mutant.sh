#!/bin/bash
# usage: tools/mutant.sh <patch-file> <PROPERTY_ID> [tier]
# Applies one patch to a scratch export of /repo's HEAD (never to /repo itself), runs the check against it
# (VERIF_REPO), prints the verdict line and removes the copy.  Exit status = the check's exit status.
set -u
patch=$(readlink -f "$1"); id=$2; tier=${3:-quick}
d=$(mktemp -d /var/tmp/mut-XXXXXX)
git -C /repo archive HEAD | tar -x -C "$d"
if ! (cd "$d" && patch -p1 -s < "$patch"); then echo "PATCH-FAILED $patch"; rm -rf "$d"; exit 3; fi
cd "$(dirname "$0")/.."
out=$(VERIF_REPO="$d" VERIF_NO_EVIDENCE=1 ./check "$id" "$tier" 2>&1); rc=$?
echo "$out" | grep -E "VIOLATION|KNOWN-FINDING|MACHINERY|OK tier" | cut -c1-300 | head -6
echo "mutant=$(basename "$patch") check=$id exit=$rc"
rm -rf "$d"
exit $rc
