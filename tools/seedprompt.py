#!/usr/bin/env python3
"""usage: tools/seedprompt.py <round> <PROPERTY_ID>   -> writes /tmp/seed<round>_prompt_<ID>.txt and prints the worktree path.
The seeding agent sees ONLY the property text and the list of edits used before (from seeded/*/meta.json), nothing of /verif."""
import glob
import json
import sys

rnd, pid = sys.argv[1], sys.argv[2]
prop = next(json.loads(l) for l in open("/verif/properties.jsonl") if json.loads(l)["id"] == pid)
wt = f"/tmp/seed{rnd}_{pid.lower()}"
used = []
for m in sorted(glob.glob("/verif/seeded/*/meta.json")):
    d = json.load(open(m))
    if d.get("property") == pid:
        used.append(d.get("what") or d.get("change") or "")
anchors = ", ".join(prop["anchors"]["files"])
note = ""
if used:
    note = ("Note: earlier studies already used the following changes for this property; choose a DIFFERENT site and mechanism:\n"
            + "\n".join(f" - {u}" for u in used if u) + "\n")
text = f"""You are a careful engineer asked to produce ONE realistic, subtle regression in the optuna library (a Python hyperparameter optimisation framework) for a robustness study. You work ONLY inside your own scratch git worktree of the repository at {wt} (already checked out; optuna imports from it when you run Python as `PYTHONPATH={wt} /venv/bin/python ...`; run tests as `cd {wt} && PYTHONPATH={wt} /venv/bin/python -m pytest <paths> -q -p no:cacheprovider --timeout=900 --color=no`). Never touch /repo or /verif, never read anything under /verif, and do not run git commands other than `git -C {wt} diff` / `git -C {wt} status` / `git -C {wt} checkout -- <file>`. The machine is shared and busy: do not use pytest -n with more than 4 workers.

The property that your change must break (read it literally):
---
{pid}: {prop['title']}

Statement: {prop['statement']}

Quantifier: {prop['quantifier']['text']}

Code anchors: {anchors}

{note}
---

Task: make a small, plausible source change under {wt}/optuna (the kind of edit a real refactoring, optimisation or bug-fix attempt could introduce: an off-by-one, a condition narrowed or widened, a lock moved, a cache shortcut, a reordered statement, a dropped copy, a field forgotten in one code path, two sites that each look fine alone ...) such that
 1. the code still imports and the EXISTING test-suite still passes: run at least the test files that exercise the code you touched (for storage code: tests/storages_tests; for study code: tests/study_tests and tests/trial_tests; samplers: the matching tests/samplers_tests files; pruners: tests/pruners_tests) and confirm they pass with your change exactly as they do without it (some tests are skipped/erroring at baseline because optional packages such as pandas/cmaes are missing — compare against a baseline run; gRPC-parametrised tests are flaky under `-n`: run them without -n or exclude with -k 'not grpc');
 2. the property above is violated, but only under something SPECIFIC: a particular interleaving or schedule, a crash or fault at a particular point, a multi-step sequence of operations, an unusual but valid input, or two cooperating sites — NOT something ordinary use or the simplest smoke test would expose at once;
 3. you provide a demonstration: a small standalone Python program {wt}/demo.py (or a pytest file test_demo.py) that FAILS (non-zero exit / assertion error) with your change and PASSES on the unchanged code. Verify both: run it with your change, then save your diff (`git -C {wt} diff > {wt}/patch.diff`), `git -C {wt} checkout -- optuna`, run the demo on the clean tree (must pass), re-apply (`cd {wt} && git apply patch.diff`), run again (must fail).
Avoid: changes to tests, changes that merely raise an exception on every call, changes in optional-dependency integrations, and changes whose only effect is performance. Prefer a change in the code anchors listed in the property. If your first idea is caught by the existing tests, try another.

Deliverables, left in {wt}: patch.diff (unified diff relative to the worktree root, applicable with `git apply`), demo.py (or test_demo.py), and NOTES.md with: what you changed and why it looks innocent, exactly what is needed for the violation to manifest, the commands you ran and their results (tests with/without the change, demo with/without). Your final message must summarise those three things in under 200 words.
"""
open(f"/tmp/seed{rnd}_prompt_{pid}.txt", "w").write(text)
print(wt)
