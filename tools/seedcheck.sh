#!/bin/bash
# usage: tools/seedcheck.sh <worktree> <seed-id> <CHECK_ID> [CHECK_ID...]
# Verifies an independently seeded regression (patch.diff + demo in <worktree>) and runs our checks against it.
wt=$1; sid=$2; shift 2
demo=$(ls $wt/demo.py $wt/test_demo.py 2>/dev/null | head -1)
mkdir -p /verif/seeded/$sid
cp $wt/patch.diff $wt/NOTES.md $demo /verif/seeded/$sid/ 2>/dev/null
d=$(mktemp -d /var/tmp/seedchk-XXXXXX)
git -C /repo archive HEAD | tar -x -C $d
run_demo() { cp $demo $1/ 2>/dev/null; local dm=$1/$(basename $demo); if [[ $demo == *test_demo.py ]]; then (cd $1 && PYTHONPATH=$1 timeout 900 /venv/bin/python -m pytest $dm -q -p no:cacheprovider --color=no >/dev/null 2>&1); else (cd $1 && PYTHONPATH=$1 timeout 900 /venv/bin/python $dm >/dev/null 2>&1); fi; echo $?; }
clean=$(run_demo $d)
(cd $d && git apply --unsafe-paths $wt/patch.diff 2>/dev/null || patch -p1 -s < $wt/patch.diff)
mut=$(run_demo $d)
echo "seed=$sid demo_on_clean_exit=$clean demo_on_patched_exit=$mut"
rm -rf $d
for c in "$@"; do /verif/tools/mutant.sh $wt/patch.diff $c 2>&1 | tail -1; done
