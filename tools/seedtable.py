#!/usr/bin/env python3
"""Writes seeded/README.md (one row per independently seeded regression, from seeded/*/meta.json) and prints the counts."""
import glob
import json
import os
import re

rows = []
for m in sorted(glob.glob("/verif/seeded/*/meta.json"), key=lambda p: (re.sub(r"[a-z]$", "", p.split("/")[-2]), p)):
    d = json.load(open(m))
    sid = m.split("/")[-2]
    what = d.get("what") or d.get("change") or ""
    det = d.get("detected_by") or []
    rows.append((sid, d.get("property", ""), d.get("round", ""), what, d.get("needs", ""), det))
missed = [r for r in rows if not r[5]]
first = [r for r in rows if r[5] and not any("after" in x for x in r[5])]
after = [r for r in rows if any("after" in x for x in r[5])]


def cell(x):
    return str(x).replace("|", "\\|").replace("\n", " ")


out = ["# Independently seeded regressions", "",
       f"{len(rows)} seeds: {len(first)} detected at the first run of some check, {len(after)} only after the named check was "
       f"strengthened (never loosened), {len(missed)} not detected ({', '.join(r[0] for r in missed) or '-'}; see their meta.json).  Each directory holds `patch.diff` (apply to /repo HEAD), the seeding agent's `demo.py` "
       "and `NOTES.md`, and `meta.json`.  Re-run one with `tools/mutant.sh seeded/<id>/patch.diff <CHECK>` (exit 1 expected).", "",
       "| seed | property | round | the edit | what it needs to show | detected by |", "|---|---|---|---|---|---|"]
for sid, prop, rnd, what, needs, det in rows:
    out.append(f"| {sid} | {cell(prop)} | {rnd} | {cell(what)} | {cell(needs)} | {cell('; '.join(det) or 'NOT DETECTED')} |")
open("/verif/seeded/README.md", "w").write("\n".join(out) + "\n")
print(len(rows), len(first), len(after), len(missed))
